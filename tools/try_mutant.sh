#!/bin/bash
# usage: tools/try_mutant.sh <patch.diff> <Cnn> [more Cnn...]
# Applies a change to /repo's working tree, confirms that it builds and that the
# repository's own suite still passes, runs the named checks (quick tier) and
# restores /repo. Prints one line per check: DETECTED / MISSED.
set -u
patch="$(readlink -f "$1")"; shift
cd /repo || exit 2
if [ -n "$(git status --porcelain)" ]; then echo "try_mutant: /repo is not clean" >&2; exit 2; fi
if ! git apply "$patch"; then echo "try_mutant: patch does not apply" >&2; exit 2; fi
trap 'git -C /repo checkout -- . ; git -C /repo clean -fdq' EXIT
export GOFLAGS=-mod=mod GOPROXY=off GOSUMDB=off
if ! go build ./... 2>/tmp/tm_build.log; then echo "MUTANT-DOES-NOT-BUILD"; cat /tmp/tm_build.log; exit 3; fi
if [ "${SKIP_SUITE:-0}" != 1 ]; then
  if ! go test -vet=off -count=1 ./... >/tmp/tm_suite.log 2>&1; then echo "MUTANT-FAILS-SUITE"; tail -5 /tmp/tm_suite.log; exit 3; fi
  echo "suite: passes with the mutant"
fi
cd /verif
for p in "$@"; do
  out=$(VERIF_REPLAYS=/verif/.build/mutant-replays ./check "$p" ${TIER:-quick} 2>&1); rc=$?
  if [ $rc -eq 1 ]; then
    echo "DETECTED $p: $(echo "$out" | grep -A1 '^VIOLATION' | sed -n 2p | cut -c1-220)"
  elif [ $rc -eq 0 ]; then
    echo "MISSED   $p: $(echo "$out" | tail -1 | cut -c1-160)"
  else
    echo "TROUBLE  $p (exit $rc): $(echo "$out" | tail -3 | cut -c1-300)"
  fi
done
