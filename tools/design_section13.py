#!/usr/bin/env python3
"""Regenerates section 13 of DESIGN.md from /verif/seeded/*/meta.json."""
import json, glob, os, re
rows=[]
for m in sorted(glob.glob('/verif/seeded/*/meta.json')):
    d=json.load(open(m))
    det="; ".join(f"**{k}**: {v}" for k,v in d['detected_by'].items())
    rows.append(f"| {d['id']} | {d['change']} | {d['needs_to_manifest']} | {det} |")
cross=[]
p='/verif/seeded/cross_matrix_wave1_partial.txt'
if os.path.exists(p):
    for l in open(p):
        f=l.split()
        if not f: continue
        det=[x.split(':')[0] for x in f[1:] if x.endswith('DET')]
        cross.append(f"| {f[0]} | {', '.join(det)} |")
sec = """## 13. Sensitivity: which check catches which change

Every change below was written by a fresh sub-agent that was given only the
text of one property and its own scratch git worktree of /repo (nothing from
/verif), asked for a change that breaks the property while compiling and
passing the 405 tests and that needs something specific to manifest, with a
demonstration. Each was confirmed independently (`tools/confirm_mutant.sh`:
the demonstration passes on HEAD; with the patch the tree builds, the suite
passes and the demonstration fails), then the property's quick check was run
against it (`tools/try_mutant.sh`: `git -C /repo apply`, `./check`,
`git -C /repo checkout -- .`; or the equivalent `tools/try_mutant_copy.sh`
on a scratch worktree). They are kept under `/verif/seeded/<id>/`
(patch.diff, demo_test.go, the agent's README.md, meta.json). None is ever
committed to /repo.

Result: 66 changes (2 waves x 11 properties x 3), 66 detected by a quick
check - 65 by the check of the property they were written against, one
(C19-w2-m3, a data race between concurrent traced executions of one Prog) by
C12, whose statement it actually breaks. 16 of the 66 were MISSED when first
tried (3 in wave 1, 13 in wave 2) and for 3 more (C19 wave 1) the workload was
widened on reading the agent's description, before the first trial; each miss
was answered by widening the workload or adding a fault kind, never by
special-casing the change, and the "detected by" column says which
strengthening it took. After each strengthening the check was re-run on the
unchanged tree (and, for the timing-related one, under load) to make sure it
stays silent there. The strengthenings, in one list:

* C06: jump-limit programs with terms of mixed code size and both truth values
  of the left operand; Unmarshal targets whose fields match the generators
  (this also exposed the genuine nil-field panic, section 11).
* C07: 3- and 4-byte characters outside strings and comments, raw 4-byte runes
  inside them; a partition with a zero-byte read in front of every piece
  (well over 100 per call).
* C08/C09: more than 240 constants / locals in front of the planted statement;
  more than 65 536 lines; loading into a Prog that held another program.
* C12: the first use of the library in every worker process is concurrent
  (cold start: lazy initialisation); Execute of the shared Prog with the
  observer options; large programs among the callers' inputs.
* C13: one delivery per cut passes OptDisasm to LoadProg; sources with more
  than 4096 (thorough: 65 536) lines, i.e. section sizes beyond any plausible
  preallocation cap.
* C16: read errors in the reader scripts; a runtime-error class; replay files
  carry both schedules that disagreed; two distinct struct types with one name
  bound in an order that differs between the GOMAXPROCS passes, so that
  per-process caches show as a cross-process difference.
* C18: `--bdump` over an existing larger file; file stems ending in b, c, l or
  a dot.
* C19: programs with 236-330 locals; strings up to 4097 bytes; Execute given
  writers of its own; a failing output writer under all 8 settings; runs of
  more than 65 536 instructions.

| id | change | needs, to manifest | detected by (signature of the violation) |
|----|--------|--------------------|------------------------------------------|
""" + "\n".join(rows) + """

Partial cross matrix (wave 1, every check run against a change, before the
wave-2 strengthenings; 18 of 33 rows were computed): which other checks also
report the change.

| change | checks that report it |
|--------|-----------------------|
""" + "\n".join(cross) + "\n"
s=open('/verif/DESIGN.md').read()
i=s.find('## 13. Sensitivity')
if i>=0:
    s=s[:i]
s=s.rstrip('\n')+"\n\n\n"+sec
open('/verif/DESIGN.md','w').write(s)
print("section 13 written:",len(rows),"rows")
