#!/usr/bin/env python3
"""Regenerates section 13 of DESIGN.md from /verif/seeded/*/meta.json."""
import json, glob, os, re
rows=[]
for m in sorted(glob.glob(os.path.dirname(os.path.abspath(__file__))+'/../seeded/*/meta.json')):
    d=json.load(open(m))
    det="; ".join(f"**{k}**: {v}" for k,v in d['detected_by'].items())
    rows.append(f"| {d['id']} | {d['change']} | {d['needs_to_manifest']} | {det} |")
cross=[]
p=os.path.dirname(os.path.abspath(__file__))+'/../seeded/cross_matrix_wave1_partial.txt'
if os.path.exists(p):
    for l in open(p):
        f=l.split()
        if not f: continue
        det=[x.split(':')[0] for x in f[1:] if x.endswith('DET')]
        cross.append(f"| {f[0]} | {', '.join(det)} |")
sec = """## 13. Sensitivity: which check catches which change

Every change below was written by a fresh sub-agent that was given only the
text of one property and its own scratch git worktree of /repo (nothing from
/verif), asked for a change that breaks the property while compiling and
passing the 405 tests and that needs something specific to manifest, with a
demonstration. Each was confirmed independently (`tools/confirm_mutant.sh`:
the demonstration passes on HEAD; with the patch the tree builds, the suite
passes and the demonstration fails), then the property's quick check was run
against it (`tools/try_mutant.sh`: `git -C /repo apply`, `./check`,
`git -C /repo checkout -- .`; or the equivalent `tools/try_mutant_copy.sh`
on a scratch worktree). They are kept under `/verif/seeded/<id>/`
(patch.diff, demo_test.go, the agent's README.md, meta.json). None is ever
committed to /repo.

Result: 252 changes: 3 waves x 11 properties x 3 (the second and third wave
were also given one-line descriptions of the earlier changes so as not to
repeat them, and the third was asked for the hardest-to-notice realistic
change), plus a fourth wave of 16 in which each of four agents got all eleven
property texts and a set of files to stay within (the small files nobody had
touched; parse.go/disasm.go; machine.go/reflect.go; CLI and API wrappers),
a fifth wave of 16 partial regressions of the repair commits themselves
(each still handles its commit message's own reproduction), a sixth wave
of 33 (again 3 per property, with the descriptions of everything before) and
a seventh of 22 (2 per property, asked for changes that need a combination of
conditions: an option and an error path, state left by an earlier call, a
particular kind of reader or writer) and an eighth of 22 (2 per property;
the agents were shown, for their property, what every earlier change was and
what it needed, and asked for a dimension none of them had touched), and a
ninth of 22 (2 per property, with the same list: one change made of two
cooperating sites that each look fine alone, one that needs a particular
fault, interleaving, kind of reader or sequence of calls), and a tenth of 22
(one a performance optimisation - a cache, a pool, a fast path - whose
invalidation, slow path or reuse is wrong; one an error path or a size-class
boundary the tests never walk).
249 are reported by a quick check; 3 are recorded as not pursued
(C07-w6-m3 needs one particular coincidence of window sizes that neither the
agent's own sweeps nor ours produce; C08-w3-m3 and C09-w3-m3 need sources / strings of 16 MiB and more - beyond
every size class the properties name, at seconds and hundreds of MB per run).
230 of the 249 are reported by the check of the property they were written
against; 19 break another property's statement more directly and are reported
there (concurrent callers or real parallelism -> C12: C19-w2-m3, C06-w3-m2,
C09-w3-m2, C19-w3-m2, C08-w6-m2, C11-w6-m3, C08-w7-m2, C14-w7-m2, C19-w7-m1;
a failing dump write -> C18: C09-w3-m1, -> C13: C09-w6-m3; a reused Prog
-> C09: C14-w6-m2; a read error that comes with data -> C11: C06-w10-m2; a
load refused -> C09: C08-w10-m2; a recursive read lock, seen twice in 60 000
runs by C06 and as a stall by C12: C06-w9-m2; overlapping loads -> C12:
C13-w10-m1; these were written "against" a property
whose workload has no such dimension).
Misses when first tried: 3 in wave 1, 13 in wave 2, 18 in wave 3 (hard mode),
4 in wave 4, 6 in wave 5, about 12 in wave 6 and 11 in wave 7 (in wave 6 most,
in wave 7 four of them answered before the first trial, on reading the
agents' descriptions; three of wave 7's need overlapping calls and are
C12's to report), 8 in wave 8 (6 of them answered on reading the
descriptions, before the first trial: long names in planted diagnostics, a
leading byte-order mark, an endless stream behind a rejected header, the
kinds of standard input, duplicate definitions, a trailing zero-byte read;
2 after it: empty-buffer reads answered as `*os.File` answers them, a corpus
file whose operand bytes carry positions of their own), 9 in wave 9
(readers that also have Stat, Len or Size, four changes; option values and
pooled buffers that outlive a call, two; a Prog re-loaded after it was listed;
a straggler goroutine reading the caller's buffer; a pipe fed in pieces -
all nine reported after the strengthenings listed below, and C12-w9-m1,
seen in 1 run before, in 126 after), 8 in wave 10 (an integer constant of
exactly 256^k; a refused target that holds pointers; a Close error raced on;
same-named local types whose wrong result is wrong alone as well; a pooled
channel closed by an earlier failed call - first "reported" only through
synctest's own cross-bubble fatal error, which is now classified as a limit
of the harness, and then properly by the new history check outside the
bubble; more than 1000 nested constructs in C11; overlapping loads after a
rejected file seen in 2, then 7 runs; the empty source in 1, then 5)
- and one wave-4 change (an endless diagnostic loop in the parser)
made the check run for over an hour before the supervisor was given a bound
on worker deaths (section 12);
for 3 more (C19 wave 1) the workload was widened on reading the agent's
description, before the first trial. Each miss was answered by widening the
workload, adding a fault kind or an invariant - never by special-casing the
change - and the "detected by" column says which strengthening it took. After
each strengthening the check was re-run on the unchanged tree to make sure it
stays silent there (and two of my own transient mistakes were caught that way,
section 12).

Regression over the whole store (`tools/run_seeded.sh`, every change against
the quick check that is recorded as detecting it, result in
`seeded/RESULTS.txt`). The first complete regression (164 changes, the
harness as of wave 6) reported 157: besides the three not pursued, four
changes that HAD been detected were missed, i.e. their detection was a matter
of luck or had been lost: C06-w2-m2 (needs 67 825 constants; that size was a
1-in-400 draw per limit run), C12-w4-F3m4 (a shared error value; seen only as
a one-off race report), C16-w3-m3 (print of a block value: the generator
change of a later wave had stopped producing it) and C13-w3-m1 (a Load that
never returns: the worker spent its 30 s supervisor period shrinking a hang
at 20 s per candidate, was killed, restarted one index further, and so on for
over an hour; the bound on worker deaths did not apply because the deaths did
not recur when the run was repeated alone). All four are now deterministic:
the large sizes are the first run indices of every C06 batch (C09 likewise
gets its code sections beyond 1 and 2 MiB there); C12 keeps every error value
the calls return and re-reads it at the end of the run (new invariant: an
error handed to a caller is not changed by a later call), with two programs
failing the same way at different places among the callers' inputs; C16 has
an input kind that prints block values with several fields directly, through
a variable and nested; hangs are not shrunk, one 20 s wait per variant and
worker process is enough, and the supervisor stops after six deaths whether
or not they recur alone (unexplained deaths end the check with exit 2, never
with a VIOLATION). The regression was then repeated with the final harness;
`seeded/RESULTS.txt` is that second result.

After waves 9 and 10 the full regression was not repeated (an hour of machine
time that was not left); instead the 15 changes with the lowest detection
counts in `seeded/RESULTS.txt` - the ones a changed generator would lose
first - were re-tried with the final harness: all 15 are still reported
(`seeded/RESULTS_fragile_after_w10.txt`). The first trials and the re-trials
of waves 9 and 10 are in `seeded/RESULTS_w9_w10.txt`. `RESULTS.txt` itself is
the regression with the wave-8 harness.

Counter-test (no alarm on code where the properties hold): two further
sub-agents were asked for behaviour-preserving maintenance changes (12 in
all, `/verif/benign/`): ParseFile restructured (result hand-off over buffered
channels; parser moved into the calling goroutine), token channel 10 -> 64,
ASCII fast path and split refill in the lexer, RWMutex and batched appends in
the line table, table-driven parser and disassembler, VM closures turned into
methods, 16 KiB Dump buffer with piecewise string writes, ReadByte-based
varint reads, tag index cached per reflect.Type, CLI flag parsing folded.
All 11 checks stay silent on all 12 (one transient alarm of C12 on three of
them was the harness's own bug of that hour, the variable-width fresh
identifier of section 12; re-run: silent).

The strengthenings, in one list:

* C06: jump-limit programs with terms of mixed code size and both truth values
  of the left operand; Unmarshal targets whose fields match the generators
  (this also exposed the genuine nil-field panic, section 11).
* C07: 3- and 4-byte characters outside strings and comments, raw 4-byte runes
  inside them; a partition with a zero-byte read in front of every piece
  (well over 100 per call).
* C08/C09: more than 240 constants / locals in front of the planted statement;
  more than 65 536 lines; loading into a Prog that held another program.
* C12: the first use of the library in every worker process is concurrent
  (cold start: lazy initialisation); Execute of the shared Prog with the
  observer options; large programs among the callers' inputs.
* C13: one delivery per cut passes OptDisasm to LoadProg; sources with more
  than 4096 (thorough: 65 536) lines, i.e. section sizes beyond any plausible
  preallocation cap.
* C16: read errors in the reader scripts; a runtime-error class; replay files
  carry both schedules that disagreed; two distinct struct types with one name
  bound in an order that differs between the GOMAXPROCS passes, so that
  per-process caches show as a cross-process difference.
* C18: `--bdump` over an existing larger file; file stems ending in b, c, l or
  a dot.
* Wave 3 added: fault kinds close_error (Close returns an error), stale
  Stat size, runs of 20-400 consecutive zero-byte reads, readers that end
  with io.ErrUnexpectedEOF or an I/O error instead of io.EOF; the invariant
  "no write to the caller's writers begins after the call has returned"
  (late-write) and, in the race build, an unsynchronised log buffer that the
  caller reads at the moment of return; loading into a used Prog and a second
  Load into the same Prog (with a 20 s hang bound) in C13; another program
  parsed and run between Parse and Execute/Dump in C08 and C16; two same-named
  struct types of different sizes in C06; strings and block names that spell
  earlier literals and identifiers; slices of 513-640 blocks; a shared locked
  output writer for concurrent executions; fresh identifiers per concurrent
  call; more concurrent LoadProg calls on different dumps; file names of 96
  bytes and more and constants larger than the write buffer in C18's fault
  runs; four new corpus files with jumps of 0x8001..0x9000 bytes over code
  whose execution would be visible.
* Waves 4-5 added: programs with more than 240 constants / locals in C09;
  an unexported tagged field and a pointer-to-struct field in C06's targets;
  inputs with special prefixes (byte-order marks, NUL, shebang); worker chunks
  rotate through GOMAXPROCS 16/1/4/2; a limit class whose temporaries come
  from every kind of push (literals, constants, locals, fields, TYPE/NAME);
  compile plants whose offending token is beyond doubt are checked exactly
  (bad block name, malformed literal, duplicate variable, unknown name, bad
  selector); program names of 65 535..70 000 bytes; a target with five tagged
  fields; stack-overflow programs under all 8 observer settings.
* Wave 6 added: injected read errors that wrap io.EOF; UnmarshalFile with
  useless targets (nil, a struct by value, an int); the invariant
  `read-outlives-call` (no Read of the input is pending at, or begins after,
  the return); one option slice with spare capacity shared by concurrent
  callers; a never-executed shared Prog executed by all callers at once; a
  file-like reader (Read, Close, Name) for LoadProg; two corpus files whose
  positions count differs from the code length; nothing on standard input
  (/dev/null), repeated flags and single-line sources for the CLI; programs at
  the compiler's limits and invalid-UTF-8 escapes in C09; binds of a missing
  type with every selector; lexical units of up to 70 000 bytes in C07;
  Execute with writers of its own followed by a plain Execute in C16; the
  runtime's "all goroutines are asleep" report attributed to bcl when a bcl
  frame is what is blocked.
* Wave 7 added: a struct type with several tagged fields bound for the first
  time in the process by concurrent callers (cold start); `--` before, after
  and between FILE arguments and flags; a corpus file whose BIND operand is a
  constant index above 240; chains of thousands of prefix operators and
  parentheses in C09; LoadProg through a caller-owned `*bufio.Reader` that is
  retried and then reset and used again after an unrelated load, Load on a
  zero-value Prog, LoadProg with nil writers (C13 variants 6-8); output and
  log writers that are plain values of one uncomparable dynamic type (a func
  adapter, a struct holding a slice) and one writer serving as both, under all
  8 observer settings (C19); code sections of 1.07, 2.1 and 3.05 MiB (C09).
* Wave 8 added: planted names of up to 1100 bytes (C08 and every other user
  of the plants); a character that cannot start a token as the very first
  token of the input - U+FEFF, `@`, a backquote, `$` - as a planted lexical
  failure; C13 variant 9: a rejected header (magic and version sweeps) in
  front of a stream that does not end, with a bound of 8 MiB on what LoadProg
  may read before its verdict; standard input of cmd/bcl as a pipe, a regular
  file, a regular file whose offset was advanced by the parent, a connected
  socket; `--bload` output compared with the direct run also under `-d`;
  several named top-level blocks defined more than once (C16); reads into an
  empty buffer answered with (0, nil) at any offset, as `*os.File` does;
  corpus file `hand_operandpos.bcb`.
* Wave 9 added: readers with optional methods as a fault kind
  (`harness/sim/readerkinds.go`: Stat of a regular file with the true, a
  smaller, a larger or zero size, of a pipe, failing; Len as bytes left or as
  bytes arrived so far; Size zero, true, larger) for every other load in C09,
  every corpus load in C14 and as load variants 10-13 of truncated files in
  C13, where Stat/Size/Len describe the file as it was before the write was
  interrupted; C16 histories through one long-lived set of Option values and
  writers shared by many calls, with calls that fail half-way in between (a
  warning followed by a runtime error, a diagnostic followed by a lexical
  failure, a Dump onto a disk that fills up at byte k, a Load of a cut file),
  each call's share of the common writers compared with the same call alone;
  C12 callers own their input buffers and overwrite them as soon as a call is
  back, and their inputs include lexical failures inside nested blocks and
  expressions, a 64-230 KiB input that fails lexically in its second line, and
  inputs whose outcome depends on starting from a clean top level; C19
  executes, under all 8 settings, a Prog that listed and traced an earlier
  (shorter or longer) program and then received the scenario's program
  through Load, against the direct runs; C18 standard-input kind 4, a pipe
  whose producer writes the program in three pieces with pauses; evidence
  reports `distinct_states` (abstract quiescent states of the pipeline).
* Wave 10 added: C11's history check outside the bubble (`c11hist.go`: calls
  that end badly in seven ways - read error after the parser failed, read
  error with data, lexical failure with input left, read error at the first
  read, failing Close, unclosed block at EOF - and then a valid multi-read
  input that must be parsed, closed once and returned within 20 s; run first
  thing in every worker process and every 16th run); C11 input class `deep`
  (600-2100 open parentheses, signs, negations or blocks, closed, half
  closed or left open, with statements behind); C16 targets that Bind refuses
  and that hold pointers, maps, channels (only what Bind says is compared: the
  harness itself never prints an address); C12: close errors in the pipeline
  runs, two same-named local struct types bound by different callers with an
  expectation that follows from type and source alone, concurrent loads of
  interrupted files and non-dumps through slow yielding readers; C13 load
  variant 14 (every observer option switched on, also in the magic and
  version sweeps); integer literals on and next to the edges of the varint
  size classes and machine words; the damage operator `insert_rune`
  (characters beyond Latin-1, beyond the BMP, look-alike digits, separators,
  non-characters at token boundaries); empty, blank-only and comment-only
  sources in C09 and C18.
* C19: programs with 236-330 locals; strings up to 4097 bytes; Execute given
  writers of its own; a failing output writer under all 8 settings; runs of
  more than 65 536 instructions.

| id | change | needs, to manifest | detected by (signature of the violation) |
|----|--------|--------------------|------------------------------------------|
""" + "\n".join(rows) + """

Partial cross matrix (wave 1, every check run against a change, before the
wave-2 strengthenings; 18 of 33 rows were computed): which other checks also
report the change.

| change | checks that report it |
|--------|-----------------------|
""" + "\n".join(cross) + "\n"
DESIGN=os.path.dirname(os.path.abspath(__file__))+'/../DESIGN.md'
s=open(DESIGN).read()
i=s.find('## 13. Sensitivity')
if i>=0:
    s=s[:i]
s=s.rstrip('\n')+"\n\n\n"+sec
open(DESIGN,'w').write(s)
print("section 13 written:",len(rows),"rows")
