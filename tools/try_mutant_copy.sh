#!/bin/bash
# usage: tools/try_mutant_copy.sh <patch.diff> <Cnn> [more Cnn...]
# Like try_mutant.sh but leaves /repo alone: the change is applied to a scratch worktree and the
# checks are built against it (VERIF_REPO) with a build directory and evidence directory of
# their own, so several trials can run side by side. Used only for the harness's own
# sensitivity matrix; registered checks always build /repo itself.
set -u
patch="$(readlink -f "$1")"; shift
id=$$
wt=/root/scratch/mwt.$id
git -C /repo worktree add --detach "$wt" HEAD >/dev/null 2>&1 || exit 2
snap=/root/scratch/msnap.$id
mkdir -p "$snap"
trap 'git -C /repo worktree remove --force "$wt" >/dev/null 2>&1; rm -rf "$snap"' EXIT
( cd "$wt" && git apply "$patch" ) || { echo "patch does not apply"; exit 2; }
# private copy of the check script's directory view: evidence and replays go to the snapshot
root="$(cd "$(dirname "$(readlink -f "$0")")/.." && pwd)"; cp -r "$root/check" "$root/harness" "$root/corpus" "$root/known_findings.jsonl" "$snap"/
for p in "$@"; do
  out=$(cd "$snap" && VERIF_REPO="$wt" VERIF_WORKERS=${VERIF_WORKERS:-16} ./check "$p" ${TIER:-quick} 2>&1); rc=$?
  if [ $rc -eq 1 ]; then echo "DETECTED $p: $(echo "$out" | grep -A1 '^VIOLATION' | sed -n 2p | cut -c1-160)"
  elif [ $rc -eq 0 ]; then echo "MISSED   $p"
  else echo "TROUBLE  $p (exit $rc): $(echo "$out" | tail -2 | cut -c1-200)"; fi
done
