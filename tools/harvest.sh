#!/bin/bash
# usage: tools/harvest.sh <worktree of a sub-agent> <id> <Cnn> [more Cnn ...]
# Takes a sub-agent's worktree (change applied, zz_demo_test.go, MUTANT.md), stores patch and
# demonstration under seeded/<id>/, confirms it independently (confirm_mutant.sh) and tries the
# named checks against it on a scratch worktree (try_mutant_copy.sh). Prints one summary line per step.
set -u
wt="$1"; id="$2"; shift 2
root="$(cd "$(dirname "$(readlink -f "$0")")/.." && pwd)"
d="$root/seeded/$id"; mkdir -p "$d"
( cd "$wt" && git diff HEAD -- . ':(exclude)zz_demo_test.go' ':(exclude)MUTANT.md' ) > "$d/patch.diff"
demo=$(cd "$wt" && ls zz_demo_test.go */zz_demo_test.go */*/zz_demo_test.go 2>/dev/null | head -1)
[ -n "$demo" ] || { echo "$id: no demo"; exit 1; }
cp "$wt/$demo" "$d/demo_test.go"
cp "$wt/MUTANT.md" "$d/README.md" 2>/dev/null
pkg=$(dirname "$demo")
echo "$id confirm: $("$root/tools/confirm_mutant.sh" "$d" "$pkg" 2>&1 | tail -1 | cut -c1-200)"
"$root/tools/try_mutant_copy.sh" "$d/patch.diff" "$@" 2>&1 | sed "s/^/$id /"
