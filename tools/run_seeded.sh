#!/bin/bash
# usage: tools/run_seeded.sh [parallel]      (sensitivity regression; about an hour)
# Runs, for every change kept under /verif/seeded, the quick check named in its meta.json
# ("detected_by") against a scratch worktree with the change applied, and writes one line per
# change to seeded/RESULTS.txt. /repo itself is not touched.
root="$(cd "$(dirname "$(readlink -f "$0")")/.." && pwd)"
cd "$root" || exit 2
export SEEDED_ROOT="$root"
par=${1:-3}
python3 - <<'PY' > /tmp/seeded_jobs.$$
import json, glob, os
for m in sorted(glob.glob(os.environ['SEEDED_ROOT']+'/seeded/*/meta.json')):
    d = json.load(open(m))
    by = [k for k in d['detected_by'] if k != 'none'] or [d['property']]
    print(d['id'], by[0])
PY
cat /tmp/seeded_jobs.$$ | xargs -P "$par" -L 1 bash -c 'id=$0; p=$1; r=$(VERIF_WORKERS=6 tools/try_mutant_copy.sh seeded/$id/patch.diff $p 2>&1 | grep -v WARNING | tail -1 | cut -c1-170); echo "$id $r"' | sort > seeded/RESULTS.txt
rm -f /tmp/seeded_jobs.$$
grep -c DETECTED seeded/RESULTS.txt
