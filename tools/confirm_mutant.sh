#!/bin/bash
# usage: tools/confirm_mutant.sh <dir with patch.diff and demo_test.go> [package dir of the demo, default .]
# Confirms independently, in a scratch worktree of /repo's HEAD: the demonstration passes
# without the change; with the change the tree builds, the repository's suite passes and
# the demonstration fails. Prints CONFIRMED or the reason.
set -u
d="$(readlink -f "$1")"
pkg="${2:-.}"
wt=/root/scratch/confirm-wt.$$
export GOFLAGS=-mod=mod GOPROXY=off GOSUMDB=off
git -C /repo worktree add --detach "$wt" HEAD >/dev/null 2>&1 || { echo "cannot create worktree"; exit 2; }
trap 'git -C /repo worktree remove --force "$wt" >/dev/null 2>&1' EXIT
cd "$wt"
demo() { # $1 = extra flags
  cp "$d"/demo_test.go ./zz_demo_test.go
  go test -vet=off -count=1 $1 -run 'Demo|Mutant|M[0-9]|Test' ./ >"$wt/../demo.$$.log" 2>&1; rc=$?
  rm -f ./zz_demo_test.go
  return $rc
}
names=$(grep -o 'func Test[A-Za-z0-9_]*' "$d"/demo_test.go | sed 's/func //' | tr '\n' '|' | sed 's/|$//')
rundemo() { cp "$d"/demo_test.go "$pkg"/zz_demo_test.go; go test -vet=off -count=1 $1 -run "^($names)\$" "./$pkg" >/root/scratch/demo.$$.log 2>&1; rc=$?; rm -f "$pkg"/zz_demo_test.go; return $rc; }
flags=""
if ! rundemo ""; then echo "NOT-CONFIRMED: demo fails on the clean tree"; tail -5 /root/scratch/demo.$$.log; exit 1; fi
git apply "$d"/patch.diff || { echo "NOT-CONFIRMED: patch does not apply"; exit 1; }
go build ./... || { echo "NOT-CONFIRMED: does not build"; exit 1; }
if ! go test -vet=off -count=1 ./... >/root/scratch/suite.$$.log 2>&1; then echo "NOT-CONFIRMED: suite fails with the change"; exit 1; fi
if rundemo ""; then
  if rundemo "-race"; then echo "NOT-CONFIRMED: demo passes with the change (also under -race)"; exit 1; fi
  # needs the race detector: make sure it is clean without the change
  git checkout -- . ; if ! rundemo "-race"; then echo "NOT-CONFIRMED: demo fails under -race on the clean tree"; exit 1; fi
  flags="-race"
fi
echo "CONFIRMED (demo: go test $flags -run '^($names)\$'; fails with the change, passes without; suite passes with the change)"
rm -f /root/scratch/demo.$$.log /root/scratch/suite.$$.log
