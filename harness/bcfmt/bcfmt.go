// Package bcfmt is an independent reader, writer and assembler for the BCL
// bytecode file format version 1.1, written from the documented layout and
// from the published sqlite4 varint rules. It deliberately shares no code
// with github.com/wkhere/bcl: the opcode, typecode and bind-nibble tables
// below are frozen copies of the v1.1 documentation.
package bcfmt

import (
	"errors"
	"fmt"
	"math"
)

// ---- sqlite4 varint (http://www.sqlite.org/src4/doc/trunk/www/varint.wiki)

func PutUvarint(x uint64) []byte {
	switch {
	case x <= 240:
		return []byte{byte(x)}
	case x <= 2287:
		return []byte{byte((x-240)/256 + 241), byte((x - 240) % 256)}
	case x <= 67823:
		return []byte{249, byte((x - 2288) / 256), byte((x - 2288) % 256)}
	}
	n := 3
	for n < 8 && x >= 1<<(8*uint(n)) {
		n++
	}
	out := make([]byte, 1+n)
	out[0] = byte(250 + n - 3)
	for i := 0; i < n; i++ {
		out[1+i] = byte(x >> (8 * uint(n-1-i)))
	}
	return out
}

var ErrShort = errors.New("bcfmt: short input")

// UvarintLen is the encoded length announced by the first byte.
func UvarintLen(a0 byte) int {
	switch {
	case a0 <= 240:
		return 1
	case a0 <= 248:
		return 2
	case a0 == 249:
		return 3
	}
	return int(a0) - 250 + 4
}

func Uvarint(b []byte) (uint64, int, error) {
	if len(b) == 0 {
		return 0, 0, ErrShort
	}
	n := UvarintLen(b[0])
	if len(b) < n {
		return 0, 0, ErrShort
	}
	a0 := uint64(b[0])
	switch {
	case a0 <= 240:
		return a0, 1, nil
	case a0 <= 248:
		return 240 + 256*(a0-241) + uint64(b[1]), 2, nil
	case a0 == 249:
		return 2288 + 256*uint64(b[1]) + uint64(b[2]), 3, nil
	}
	var x uint64
	for i := 1; i < n; i++ {
		x = x<<8 | uint64(b[i])
	}
	return x, n, nil
}

// ---- tables frozen from the v1.1 documentation

const (
	OpNOP = iota
	OpRET
	OpPRINT
	OpSETLOCAL
	OpGETLOCAL
	OpDEFBLOCK
	OpENDBLOCK
	OpSETFIELD
	OpGETFIELD
	OpCONST
	OpNIL
	OpZERO
	OpONE
	OpTRUE
	OpFALSE
	OpNOT
	OpEQ
	OpLT
	OpGT
	OpADD
	OpSUB
	OpMUL
	OpDIV
	OpNEG
	OpUNPLUS
	OpJUMP
	OpLOOP
	OpJFALSE
	OpPOP
	OpPOPN
	OpBIND
	NumOps
)

var OpNames = [...]string{"NOP", "RET", "PRINT", "SETLOCAL", "GETLOCAL", "DEFBLOCK", "ENDBLOCK", "SETFIELD", "GETFIELD", "CONST",
	"NIL", "ZERO", "ONE", "TRUE", "FALSE", "NOT", "EQ", "LT", "GT", "ADD", "SUB", "MUL", "DIV", "NEG", "UNPLUS",
	"JUMP", "LOOP", "JFALSE", "POP", "POPN", "BIND"}

// operand shapes: 'v' uvarint, 'c' uvarint constant index, 'j' big-endian u16, 'b' one byte
var OpArgs = [...]string{"", "", "", "v", "v", "cc", "", "c", "c", "c",
	"", "", "", "", "", "", "", "", "", "", "", "", "", "", "",
	"j", "j", "j", "", "v", "cb"}

const (
	TNil = iota
	TInt
	TFloat
	TStr
	TBool
)

const (
	BindOne    = 1
	BindFirst  = 2
	BindLast   = 3
	BindAll    = 15
	BindStruct = 0x10
	BindSlice  = 0x20
)

// ---- file model

type Value struct {
	Type byte
	I    int64
	F    uint64 // float bits
	S    string
	B    byte // raw bool byte
}

func (v Value) String() string {
	switch v.Type {
	case TNil:
		return "nil"
	case TInt:
		return fmt.Sprint(v.I)
	case TFloat:
		return fmt.Sprint(math.Float64frombits(v.F))
	case TStr:
		return fmt.Sprintf("%q", v.S)
	case TBool:
		return fmt.Sprint(v.B != 0)
	}
	return "?"
}

func Int(i int64) Value     { return Value{Type: TInt, I: i} }
func Float(f float64) Value { return Value{Type: TFloat, F: math.Float64bits(f)} }
func Str(s string) Value    { return Value{Type: TStr, S: s} }
func Bool(b bool) Value {
	if b {
		return Value{Type: TBool, B: 1}
	}
	return Value{Type: TBool}
}
func Nil() Value { return Value{Type: TNil} }

type File struct {
	Major, Minor byte
	Name         string
	Code         []byte
	Consts       []Value
	Positions    []uint64
	Lfs          []uint64
	// Section offsets in the encoded file, filled by Decode: start of name
	// size, code size, constants count, positions count, lfs count, end.
	Sections []int
	// Boundaries: every offset at which a field (varint, payload) starts.
	Boundaries []int
}

func (f *File) Encode() []byte {
	out := []byte{0xFC, 0x6C, f.Major, f.Minor}
	out = append(out, PutUvarint(uint64(len(f.Name)))...)
	out = append(out, f.Name...)
	out = append(out, PutUvarint(uint64(len(f.Code)))...)
	out = append(out, f.Code...)
	out = append(out, PutUvarint(uint64(len(f.Consts)))...)
	for _, v := range f.Consts {
		out = append(out, v.Type)
		switch v.Type {
		case TInt:
			out = append(out, PutUvarint(uint64(v.I))...)
		case TFloat:
			for i := 7; i >= 0; i-- {
				out = append(out, byte(v.F>>(8*uint(i))))
			}
		case TStr:
			out = append(out, PutUvarint(uint64(len(v.S)))...)
			out = append(out, v.S...)
		case TBool:
			out = append(out, v.B)
		}
	}
	out = append(out, PutUvarint(uint64(len(f.Positions)))...)
	for _, x := range f.Positions {
		out = append(out, PutUvarint(x)...)
	}
	out = append(out, PutUvarint(uint64(len(f.Lfs)))...)
	for _, x := range f.Lfs {
		out = append(out, PutUvarint(x)...)
	}
	return out
}

type dec struct {
	b    []byte
	off  int
	bnds []int
}

func (d *dec) uv() (uint64, error) {
	d.bnds = append(d.bnds, d.off)
	x, n, err := Uvarint(d.b[d.off:])
	if err != nil {
		return 0, fmt.Errorf("at %d: %w", d.off, err)
	}
	d.off += n
	return x, nil
}

func (d *dec) bytes(n uint64) ([]byte, error) {
	if n > uint64(len(d.b)-d.off) {
		return nil, fmt.Errorf("at %d: need %d bytes: %w", d.off, n, ErrShort)
	}
	d.bnds = append(d.bnds, d.off)
	p := d.b[d.off : d.off+int(n)]
	d.off += int(n)
	return p, nil
}

// Decode parses a complete file strictly: every section must be present and
// nothing may follow the last one.
func Decode(b []byte) (*File, error) {
	if len(b) < 4 {
		return nil, fmt.Errorf("header: %w", ErrShort)
	}
	if b[0] != 0xFC || b[1] != 0x6C {
		return nil, fmt.Errorf("bad magic % x", b[:2])
	}
	f := &File{Major: b[2], Minor: b[3]}
	d := &dec{b: b, off: 4}
	sec := func() { f.Sections = append(f.Sections, d.off) }
	sec()
	n, err := d.uv()
	if err != nil {
		return nil, err
	}
	p, err := d.bytes(n)
	if err != nil {
		return nil, err
	}
	f.Name = string(p)
	sec()
	if n, err = d.uv(); err != nil {
		return nil, err
	}
	if p, err = d.bytes(n); err != nil {
		return nil, err
	}
	f.Code = append([]byte(nil), p...)
	sec()
	if n, err = d.uv(); err != nil {
		return nil, err
	}
	if n > uint64(len(b)) {
		return nil, fmt.Errorf("constants count %d exceeds file", n)
	}
	for i := uint64(0); i < n; i++ {
		tb, err := d.bytes(1)
		if err != nil {
			return nil, err
		}
		v := Value{Type: tb[0]}
		switch v.Type {
		case TNil:
		case TInt:
			x, err := d.uv()
			if err != nil {
				return nil, err
			}
			v.I = int64(x)
		case TFloat:
			p, err := d.bytes(8)
			if err != nil {
				return nil, err
			}
			for _, c := range p {
				v.F = v.F<<8 | uint64(c)
			}
		case TStr:
			k, err := d.uv()
			if err != nil {
				return nil, err
			}
			p, err := d.bytes(k)
			if err != nil {
				return nil, err
			}
			v.S = string(p)
		case TBool:
			p, err := d.bytes(1)
			if err != nil {
				return nil, err
			}
			v.B = p[0]
		default:
			return nil, fmt.Errorf("at %d: unknown typecode %d", d.off-1, v.Type)
		}
		f.Consts = append(f.Consts, v)
	}
	for s := 0; s < 2; s++ {
		sec()
		if n, err = d.uv(); err != nil {
			return nil, err
		}
		if n > uint64(len(b)) {
			return nil, fmt.Errorf("count %d exceeds file", n)
		}
		xs := make([]uint64, 0, n)
		for i := uint64(0); i < n; i++ {
			x, err := d.uv()
			if err != nil {
				return nil, err
			}
			xs = append(xs, x)
		}
		if s == 0 {
			f.Positions = xs
		} else {
			f.Lfs = xs
		}
	}
	sec()
	if d.off != len(b) {
		return nil, fmt.Errorf("%d trailing bytes after the line table", len(b)-d.off)
	}
	f.Boundaries = d.bnds
	return f, nil
}

// ---- instructions

type Instr struct {
	Off  int
	Op   byte
	Args []uint64
	Len  int
}

func (i Instr) Name() string {
	if int(i.Op) < len(OpNames) {
		return OpNames[i.Op]
	}
	return fmt.Sprintf("op%d", i.Op)
}

// Target is the jump destination of a jump instruction.
func (i Instr) Target() int {
	switch i.Op {
	case OpJUMP, OpJFALSE:
		return i.Off + i.Len + int(i.Args[0])
	case OpLOOP:
		return i.Off + i.Len - int(i.Args[0])
	}
	return -1
}

// Instructions tiles the code into instructions; it fails if an opcode is
// unknown or an operand runs past the end.
func Instructions(code []byte) ([]Instr, error) {
	var out []Instr
	for off := 0; off < len(code); {
		op := code[off]
		if int(op) >= NumOps {
			return out, fmt.Errorf("offset %d: unknown opcode %d", off, op)
		}
		in := Instr{Off: off, Op: op}
		p := off + 1
		for _, a := range OpArgs[op] {
			switch a {
			case 'v', 'c':
				x, n, err := Uvarint(code[p:])
				if err != nil {
					return out, fmt.Errorf("offset %d: operand: %w", off, err)
				}
				in.Args = append(in.Args, x)
				p += n
			case 'j':
				if p+2 > len(code) {
					return out, fmt.Errorf("offset %d: jump operand: %w", off, ErrShort)
				}
				in.Args = append(in.Args, uint64(code[p])<<8|uint64(code[p+1]))
				p += 2
			case 'b':
				if p+1 > len(code) {
					return out, fmt.Errorf("offset %d: byte operand: %w", off, ErrShort)
				}
				in.Args = append(in.Args, uint64(code[p]))
				p++
			}
		}
		in.Len = p - off
		out = append(out, in)
		off = p
	}
	return out, nil
}

// ---- assembler

type Asm struct {
	Code []byte
	Pos  []uint64
	cur  uint64
}

// At sets the source position recorded for the bytes that follow.
func (a *Asm) At(pos uint64) *Asm { a.cur = pos; return a }

func (a *Asm) emit(bs ...byte) {
	for _, b := range bs {
		a.Code = append(a.Code, b)
		a.Pos = append(a.Pos, a.cur)
	}
}

func (a *Asm) Op(op byte, args ...uint64) *Asm {
	a.emit(op)
	i := 0
	for _, s := range OpArgs[op] {
		switch s {
		case 'v', 'c':
			a.emit(PutUvarint(args[i])...)
		case 'j':
			a.emit(byte(args[i]>>8), byte(args[i]))
		case 'b':
			a.emit(byte(args[i]))
		}
		i++
	}
	return a
}

func (a *Asm) Len() int { return len(a.Code) }

// PatchJump sets the u16 operand of the jump at off so that it lands on target.
func (a *Asm) PatchJump(off, target int) {
	var d int
	if a.Code[off] == OpLOOP {
		d = off + 3 - target
	} else {
		d = target - (off + 3)
	}
	a.Code[off+1] = byte(d >> 8)
	a.Code[off+2] = byte(d)
}
