// Package simio holds the simulated objects that stand in for everything
// bcl reaches through an interface: the source file (bcl.FileInput), the log
// and output writers, the reader a dump is loaded from and the "disk" a dump
// is written to. Calls into a gated object block until the scheduler (the
// root goroutine of a testing/synctest bubble, see package sim) releases them.
//
// What a call returns is never drawn at call time: it comes from the
// scenario's pre-computed script, so the seams never touch the PRNG.
package simio

import (
	"bytes"
	"errors"
	"fmt"
	"io"
	"io/fs"
	"sort"
	"sync"
	"sync/atomic"
	"time"
)

// Object and call kinds; their numeric order is the canonical order of the
// pending set.
const (
	OFile = iota
	OLog
	OOut
	OClient // + client index, for multi-client runs
)

const (
	KRead = iota
	KClose
	KName
	KWrite
)

var kindNames = [...]string{"read", "close", "name", "write"}

func ObjName(o int) string {
	switch o {
	case OFile:
		return "file"
	case OLog:
		return "log"
	case OOut:
		return "out"
	}
	return fmt.Sprintf("obj%d", o)
}

// Gate is one blocked call into a simulated object.
type Gate struct {
	Obj, Kind, Seq int
	ch             chan struct{}
}

func (g *Gate) String() string {
	return fmt.Sprintf("%s.%s#%d", ObjName(g.Obj), kindNames[g.Kind], g.Seq)
}

// Event is one entry of the event log: either a scheduler decision
// (Released) or the completion of a seam call.
type Event struct {
	Step     int
	Obj      int
	Kind     int
	Seq      int
	Released bool // scheduler released this gate; Pending = size of the pending set, Choice = index
	Pending  int
	Choice   int
	N        int  // bytes returned / written
	EOF, Err bool // what the call returned
	Zero     bool
}

func (e Event) String() string {
	g := Gate{Obj: e.Obj, Kind: e.Kind, Seq: e.Seq}
	if e.Released {
		return fmt.Sprintf("step %d: release %s (choice %d of %d)", e.Step, g.String(), e.Choice, e.Pending)
	}
	s := fmt.Sprintf("step %d: %s ->", e.Step, g.String())
	if e.Kind == KRead || e.Kind == KWrite {
		s += fmt.Sprintf(" n=%d", e.N)
	}
	if e.Zero {
		s += " zero"
	}
	if e.EOF {
		s += " EOF"
	}
	if e.Err {
		s += " ERR"
	}
	return s
}

// Sched is the gate registry. It has no scheduling policy of its own.
type Sched struct {
	mu      sync.Mutex
	pending []*Gate
	events  []Event
	step    int
	Record  bool // keep the event log (always hashed; kept in full only if set)
	hash    uint64
	nevents int
}

func NewSched() *Sched { return &Sched{hash: 1469598103934665603} }

// Enter registers a gate and blocks until it is released.
func (s *Sched) Enter(obj, kind, seq int) {
	g := &Gate{Obj: obj, Kind: kind, Seq: seq, ch: make(chan struct{})}
	s.mu.Lock()
	s.pending = append(s.pending, g)
	s.mu.Unlock()
	<-g.ch
}

// Pending returns the canonically sorted pending set. Only meaningful when
// every other goroutine of the bubble is durably blocked.
func (s *Sched) Pending() []*Gate {
	s.mu.Lock()
	defer s.mu.Unlock()
	sort.Slice(s.pending, func(i, j int) bool {
		a, b := s.pending[i], s.pending[j]
		if a.Obj != b.Obj {
			return a.Obj < b.Obj
		}
		if a.Kind != b.Kind {
			return a.Kind < b.Kind
		}
		return a.Seq < b.Seq
	})
	out := make([]*Gate, len(s.pending))
	copy(out, s.pending)
	return out
}

// Release lets exactly one pending gate through.
func (s *Sched) Release(i int) {
	s.mu.Lock()
	g := s.pending[i]
	n := len(s.pending)
	s.pending = append(s.pending[:i], s.pending[i+1:]...)
	s.step++
	s.logLocked(Event{Step: s.step, Obj: g.Obj, Kind: g.Kind, Seq: g.Seq, Released: true, Pending: n, Choice: i})
	s.mu.Unlock()
	close(g.ch)
}

func (s *Sched) Step() int {
	s.mu.Lock()
	defer s.mu.Unlock()
	return s.step
}

func (s *Sched) logLocked(e Event) {
	// FNV-1a over the fields; order of Log calls is deterministic at gates
	// (only one gated goroutine runs between two decisions) - completions of
	// ungated calls are folded in commutatively below.
	h := uint64(1469598103934665603)
	mixin := func(v int) {
		h ^= uint64(v) + 0x9e37
		h *= 1099511628211
	}
	mixin(e.Obj)
	mixin(e.Kind)
	mixin(e.Seq)
	mixin(e.N)
	b := 0
	if e.Released {
		b |= 1
	}
	if e.EOF {
		b |= 2
	}
	if e.Err {
		b |= 4
	}
	if e.Zero {
		b |= 8
	}
	mixin(b)
	mixin(e.Choice)
	mixin(e.Pending)
	if e.Released {
		// decisions are totally ordered: chain them
		mixin(e.Step)
		s.hash = (s.hash ^ h) * 1099511628211
	} else {
		// completions from different goroutines inside one window may be
		// logged in either real order: fold commutatively, keyed by step
		mixin(e.Step)
		s.hash += h
	}
	s.nevents++
	if s.Record {
		s.events = append(s.events, e)
	}
}

// Log records the completion of a seam call.
func (s *Sched) Log(e Event) {
	s.mu.Lock()
	e.Step = s.step
	s.logLocked(e)
	s.mu.Unlock()
}

func (s *Sched) Hash() uint64 {
	s.mu.Lock()
	defer s.mu.Unlock()
	return s.hash
}

// Events returns the recorded log in canonical order (by step, decisions
// first, then completions by object/kind/seq).
func (s *Sched) Events() []Event {
	s.mu.Lock()
	defer s.mu.Unlock()
	out := make([]Event, len(s.events))
	copy(out, s.events)
	sort.SliceStable(out, func(i, j int) bool {
		a, b := out[i], out[j]
		if a.Step != b.Step {
			return a.Step < b.Step
		}
		if a.Released != b.Released {
			return a.Released
		}
		if a.Obj != b.Obj {
			return a.Obj < b.Obj
		}
		if a.Kind != b.Kind {
			return a.Kind < b.Kind
		}
		return a.Seq < b.Seq
	})
	return out
}

// ---------------------------------------------------------------- SimFile

// ReadStep scripts one Read call.
type ReadStep struct {
	N    int  `json:"n,omitempty"`    // bytes to hand over (0 = as many as fit)
	Zero bool `json:"zero,omitempty"` // return (0, nil)
	EOF  bool `json:"eof,omitempty"`  // if this read hands over the last byte, return io.EOF with it
	Err  bool `json:"err,omitempty"`  // return the injected error (with N bytes of data if N>0)
	Wrap bool `json:"wrap,omitempty"` // the injected error wraps io.EOF (errors.Is(err, io.EOF) holds, err != io.EOF)
}

// ErrInjected is the base of every injected read error.
type InjectedError struct {
	ID   int
	Wrap bool
}

func (e *InjectedError) Error() string { return fmt.Sprintf("simio: injected read error #%d", e.ID) }

// Unwrap makes a "wrapping" injected error satisfy errors.Is(err, io.EOF): code that
// classifies errors with errors.Is must still treat it as a failure, not as the end of input.
func (e *InjectedError) Unwrap() error {
	if e.Wrap {
		return io.EOF
	}
	return nil
}

type FileCfg struct {
	Name                          string
	Data                          []byte
	Script                        []ReadStep
	Fill                          int    // bytes of filler produced after Data
	FillPat                       string // repeated to make the filler
	GateRead, GateClose, GateName bool
	CloseErr                      bool // Close returns an error
	StatSize                      int  // size reported by Stat: >0 a (possibly stale) size, 0 = the true size, <0 = Stat fails
}

// SimFile implements bcl.FileInput.
type SimFile struct {
	s   *Sched
	cfg FileCfg

	mu             sync.Mutex
	off            int // bytes of Data handed over
	filled         int // filler bytes handed over
	si             int
	Reads          int // Read calls that returned
	ReadCalls      int
	Closes         int
	CloseCalls     int
	NameCalls      int
	ReadAfterClose int
	ReadAfterEOF   int
	ReadAfterErr   int
	Delivered      int // total bytes handed over
	sawEOF, sawErr bool
	Injected       *InjectedError
	ErrDelivered   bool
	ErrDeliveredAt int // Reads count when delivered
	ZeroReads      int
	EOFWithData    int
	ShortReads     int
	ChunkEnds      []int // offsets (in Data+filler) at which delivered chunks ended
	ReadsAt        []int // Delivered after each returned read (for I5)
	closed         bool
	StatCalls      int
}

func NewSimFile(s *Sched, cfg FileCfg) *SimFile {
	if cfg.FillPat == "" {
		cfg.FillPat = "print 1\n"
	}
	return &SimFile{s: s, cfg: cfg, Injected: &InjectedError{ID: len(cfg.Data)}}
}

func (f *SimFile) total() int { return len(f.cfg.Data) + f.cfg.Fill }

func (f *SimFile) Read(p []byte) (int, error) {
	f.mu.Lock()
	f.ReadCalls++
	seq := f.ReadCalls
	f.mu.Unlock()
	if f.cfg.GateRead && f.s != nil {
		f.s.Enter(OFile, KRead, seq)
	}
	f.mu.Lock()
	defer f.mu.Unlock()
	if f.closed {
		f.ReadAfterClose++
	}
	if f.sawEOF {
		f.ReadAfterEOF++
	}
	if f.sawErr {
		f.ReadAfterErr++
	}
	var st ReadStep
	if f.si < len(f.cfg.Script) {
		st = f.cfg.Script[f.si]
		f.si++
	}
	ev := Event{Obj: OFile, Kind: KRead, Seq: seq}
	defer func() {
		f.Reads++
		f.ReadsAt = append(f.ReadsAt, f.Delivered)
		if f.s != nil {
			f.s.Log(ev)
		}
	}()
	if st.Zero && len(p) > 0 {
		f.ZeroReads++
		ev.Zero = true
		return 0, nil
	}
	if len(p) == 0 {
		// what (*os.File).Read does with an empty buffer, at any offset, end of file included
		ev.Zero = true
		return 0, nil
	}
	remaining := f.total() - f.off - f.filled
	n := st.N
	if n <= 0 || n > len(p) {
		if st.Err && st.N <= 0 {
			n = 0
		} else {
			n = len(p)
		}
	}
	if n > remaining {
		n = remaining
	}
	// copy data then filler
	w := 0
	for w < n {
		if f.off < len(f.cfg.Data) {
			c := copy(p[w:n], f.cfg.Data[f.off:])
			f.off += c
			w += c
		} else {
			pat := f.cfg.FillPat
			p[w] = pat[f.filled%len(pat)]
			f.filled++
			w++
		}
	}
	f.Delivered += n
	ev.N = n
	if n > 0 {
		f.ChunkEnds = append(f.ChunkEnds, f.off+f.filled)
		if n < len(p) && n < remaining {
			f.ShortReads++
		}
	}
	if st.Err {
		f.Injected.Wrap = st.Wrap
		f.sawErr = true
		f.ErrDelivered = true
		f.ErrDeliveredAt = f.Reads + 1
		ev.Err = true
		return n, f.Injected
	}
	if f.sawErr {
		ev.Err = true
		return 0, f.Injected
	}
	if n == remaining {
		if n == 0 {
			f.sawEOF = true
			ev.EOF = true
			return 0, io.EOF
		}
		if st.EOF {
			f.sawEOF = true
			f.EOFWithData++
			ev.EOF = true
			return n, io.EOF
		}
	}
	return n, nil
}

func (f *SimFile) Close() error {
	f.mu.Lock()
	f.CloseCalls++
	seq := f.CloseCalls
	f.mu.Unlock()
	if f.cfg.GateClose && f.s != nil {
		f.s.Enter(OFile, KClose, seq)
	}
	f.mu.Lock()
	f.Closes++
	f.closed = true
	f.mu.Unlock()
	if f.s != nil {
		f.s.Log(Event{Obj: OFile, Kind: KClose, Seq: seq, Err: f.cfg.CloseErr})
	}
	if f.cfg.CloseErr {
		return ErrClose
	}
	return nil
}

var ErrClose = errors.New("simio: close failed")

// Stat makes the simulated file look like a regular file whose metadata may be stale (the
// file grew after the size was taken): nothing may depend on it instead of reading to EOF.
func (f *SimFile) Stat() (fs.FileInfo, error) {
	f.mu.Lock()
	f.StatCalls++
	f.mu.Unlock()
	if f.cfg.StatSize < 0 {
		return nil, errors.New("simio: stat failed")
	}
	size := f.cfg.StatSize
	if size == 0 {
		size = f.total()
	}
	return simInfo{name: f.cfg.Name, size: int64(size)}, nil
}

type simInfo struct {
	name string
	size int64
}

func (i simInfo) Name() string       { return i.name }
func (i simInfo) Size() int64        { return i.size }
func (i simInfo) Mode() fs.FileMode  { return 0o644 }
func (i simInfo) ModTime() time.Time { return time.Time{} }
func (i simInfo) IsDir() bool        { return false }
func (i simInfo) Sys() any           { return nil }

func (f *SimFile) Name() string {
	f.mu.Lock()
	f.NameCalls++
	seq := f.NameCalls
	f.mu.Unlock()
	if f.cfg.GateName && f.s != nil {
		f.s.Enter(OFile, KName, seq)
	}
	if f.s != nil {
		f.s.Log(Event{Obj: OFile, Kind: KName, Seq: seq})
	}
	return f.cfg.Name
}

// Snapshot is a consistent copy of the counters.
type FileStats struct {
	Reads, ReadCalls, Closes, CloseCalls, NameCalls int
	ReadAfterClose, ReadAfterEOF, ReadAfterErr      int
	Delivered, ZeroReads, EOFWithData, ShortReads   int
	ErrDelivered                                    bool
	ErrDeliveredAt                                  int
	ChunkEnds, ReadsAt                              []int
	Remaining                                       int
}

func (f *SimFile) Stats() FileStats {
	f.mu.Lock()
	defer f.mu.Unlock()
	return FileStats{f.Reads, f.ReadCalls, f.Closes, f.CloseCalls, f.NameCalls,
		f.ReadAfterClose, f.ReadAfterEOF, f.ReadAfterErr,
		f.Delivered, f.ZeroReads, f.EOFWithData, f.ShortReads,
		f.ErrDelivered, f.ErrDeliveredAt,
		append([]int(nil), f.ChunkEnds...), append([]int(nil), f.ReadsAt...),
		f.total() - f.off - f.filled}
}

// Remaining reports how many scripted+filler bytes were never handed over.
func (f *SimFile) Remaining() int {
	f.mu.Lock()
	defer f.mu.Unlock()
	return f.total() - f.off - f.filled
}

// ---------------------------------------------------------------- SimWriter

// SimWriter records everything written to it, optionally gating every Write.
// The small lock orders only goroutines that write to the same writer, which
// bcl already orders (parser goroutine, then the caller); the lexer goroutine
// never writes, so the lock gives the race detector no edge it must not have.
type SimWriter struct {
	s     *Sched
	obj   int
	Gated bool
	mu    sync.Mutex
	seq   int
	buf   []byte
	calls int
	// Returned is set by the harness when the call under test has returned to its caller;
	// a Write that starts afterwards comes from a goroutine the call left behind.
	Returned   *atomic.Bool
	LateWrites atomic.Int32
	// Raw: the buffer is appended to without any lock, like the bytes.Buffer a caller would
	// pass; the caller reads it right after the call returns. Only the race detector can tell
	// whether the library still writes at that time.
	Raw    bool
	RawBuf []byte
}

const maxKeep = 64 << 20

// Bounded is a writer that keeps the first 64 MiB and accepts (and counts) the rest.
type Bounded struct {
	bytes.Buffer
	Dropped int
}

func (b *Bounded) Write(p []byte) (int, error) {
	if b.Len() >= maxKeep {
		b.Dropped += len(p)
		return len(p), nil
	}
	return b.Buffer.Write(p)
}

func NewSimWriter(s *Sched, obj int, gated bool) *SimWriter {
	return &SimWriter{s: s, obj: obj, Gated: gated}
}

func (w *SimWriter) Write(p []byte) (int, error) {
	if w.Returned != nil && w.Returned.Load() {
		w.LateWrites.Add(1)
	}
	if w.Raw {
		if len(w.RawBuf) < maxKeep {
			w.RawBuf = append(w.RawBuf, p...)
		}
		return len(p), nil
	}
	w.mu.Lock()
	w.seq++
	seq := w.seq
	gated, s := w.Gated, w.s
	w.mu.Unlock()
	if gated && s != nil {
		s.Enter(w.obj, KWrite, seq)
	}
	w.mu.Lock()
	if len(w.buf) < maxKeep {
		w.buf = append(w.buf, p...) // a library that never stops writing must not take the worker's memory with it
	}
	w.calls++
	w.mu.Unlock()
	if s != nil && gated {
		s.Log(Event{Obj: w.obj, Kind: KWrite, Seq: seq, N: len(p)})
	}
	return len(p), nil
}

// Ungate makes later writes pass straight through (used once the bubble is left).
func (w *SimWriter) Ungate() {
	w.mu.Lock()
	w.Gated = false
	w.s = nil
	w.mu.Unlock()
}

func (w *SimWriter) String() string {
	if w.Raw {
		return string(w.RawBuf)
	}
	w.mu.Lock()
	defer w.mu.Unlock()
	return string(w.buf)
}

func (w *SimWriter) Len() int {
	if w.Raw {
		return len(w.RawBuf)
	}
	w.mu.Lock()
	defer w.mu.Unlock()
	return len(w.buf)
}

// ---------------------------------------------------------------- SimReader

// SimReader hands stored bytes to a loader according to a script.
type SimReader struct {
	Data      []byte
	Script    []ReadStep
	off, si   int
	Reads     int
	ZeroReads int
	MaxZero   int // consecutive zero reads are capped (io.Reader contract discourages them)
	zrun      int
	Ends      []int
	EndErr    error // what the reader reports where the stored bytes end (nil: io.EOF)
}

func (r *SimReader) Read(p []byte) (int, error) {
	r.Reads++
	var st ReadStep
	if r.si < len(r.Script) {
		st = r.Script[r.si]
		r.si++
	}
	if st.Zero && len(p) > 0 && r.zrun < 3 {
		r.zrun++
		r.ZeroReads++
		return 0, nil
	}
	r.zrun = 0
	remaining := len(r.Data) - r.off
	n := st.N
	if n <= 0 || n > len(p) {
		n = len(p)
	}
	if n > remaining {
		n = remaining
	}
	copy(p, r.Data[r.off:r.off+n])
	r.off += n
	if n > 0 {
		r.Ends = append(r.Ends, r.off)
	}
	if n == remaining {
		end := r.EndErr
		if end == nil {
			end = io.EOF
		}
		if n == 0 {
			return 0, end
		}
		if st.EOF {
			return n, end
		}
	}
	return n, nil
}

// Left reports how many stored bytes have not been handed over yet.
func (r *SimReader) Left() int { return len(r.Data) - r.off }

// NextN reports the size the script gives the next read (0: whatever is asked for).
func (r *SimReader) NextN() int {
	if r.si < len(r.Script) {
		return r.Script[r.si].N
	}
	return 0
}

// ---------------------------------------------------------------- SimDisk

var ErrDisk = errors.New("simio: disk write failed (torn write)")

// SimDisk is an io.Writer that keeps exactly the first FailAt bytes when
// FailAt >= 0: the write that crosses that offset is torn.
type SimDisk struct {
	FailAt int // -1: never
	Buf    []byte
	Writes int
	Torn   bool
}

func (d *SimDisk) Write(p []byte) (int, error) {
	d.Writes++
	if d.FailAt >= 0 && len(d.Buf)+len(p) > d.FailAt {
		k := d.FailAt - len(d.Buf)
		if k < 0 {
			k = 0
		}
		d.Buf = append(d.Buf, p[:k]...)
		d.Torn = true
		return k, ErrDisk
	}
	d.Buf = append(d.Buf, p...)
	return len(p), nil
}
