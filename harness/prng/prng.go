// Package prng is the harness's own pseudo-random source. It is a splitmix64
// stream so that a scenario is a pure function of (VERIF_SEED, property, run
// index) on every Go release; math/rand is never used.
package prng

import "hash/fnv"

type R struct{ s uint64 }

func mix(z uint64) uint64 {
	z += 0x9e3779b97f4a7c15
	z = (z ^ (z >> 30)) * 0xbf58476d1ce4e5b9
	z = (z ^ (z >> 27)) * 0x94d049bb133111eb
	return z ^ (z >> 31)
}

// New derives a stream from a seed and any number of labels.
func New(seed uint64, labels ...any) *R {
	s := mix(seed)
	for _, l := range labels {
		switch v := l.(type) {
		case string:
			h := fnv.New64a()
			h.Write([]byte(v))
			s = mix(s ^ h.Sum64())
		case int:
			s = mix(s ^ uint64(v)*0x9e3779b97f4a7c15)
		case uint64:
			s = mix(s ^ v)
		default:
			panic("prng: bad label")
		}
	}
	return &R{s}
}

func (r *R) U64() uint64 {
	r.s += 0x9e3779b97f4a7c15
	z := r.s
	z = (z ^ (z >> 30)) * 0xbf58476d1ce4e5b9
	z = (z ^ (z >> 27)) * 0x94d049bb133111eb
	return z ^ (z >> 31)
}

// Fork returns an independent stream labelled by name.
func (r *R) Fork(labels ...any) *R { return New(r.U64(), labels...) }

// Intn returns a value in [0,n). n<=0 yields 0.
func (r *R) Intn(n int) int {
	if n <= 1 {
		return 0
	}
	return int(r.U64() % uint64(n))
}

// Range returns a value in [lo,hi].
func (r *R) Range(lo, hi int) int {
	if hi <= lo {
		return lo
	}
	return lo + r.Intn(hi-lo+1)
}

// Chance is true with probability num/den.
func (r *R) Chance(num, den int) bool { return r.Intn(den) < num }

func (r *R) Float() float64 { return float64(r.U64()>>11) / (1 << 53) }

// Pick returns an index weighted by w.
func (r *R) Weighted(w ...int) int {
	t := 0
	for _, x := range w {
		t += x
	}
	k := r.Intn(t)
	for i, x := range w {
		if k < x {
			return i
		}
		k -= x
	}
	return len(w) - 1
}

// Geom returns a geometric-ish size in [1,max] with the given mean.
func (r *R) Geom(mean, max int) int {
	if mean < 1 {
		mean = 1
	}
	n := 1
	for n < max && !r.Chance(1, mean) {
		n++
	}
	return n
}

func Pick[T any](r *R, xs []T) T { return xs[r.Intn(len(xs))] }

// Perm returns a seeded permutation of 0..n-1.
func (r *R) Perm(n int) []int {
	p := make([]int, n)
	for i := range p {
		p[i] = i
	}
	for i := n - 1; i > 0; i-- {
		j := r.Intn(i + 1)
		p[i], p[j] = p[j], p[i]
	}
	return p
}
