package main

func selftestMain(args []string) int { return 0 }
