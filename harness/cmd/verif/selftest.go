package main

import (
	"fmt"
	"os"
	"path/filepath"
	"sort"
	"strconv"
	"sync"
	"time"

	"verifharness/sim"
)

// selftestMain is `./check selftest [runs]`: the determinism self-test. For
// every simulated property the same run indices are executed in many separate
// worker processes at GOMAXPROCS 1, 4 and 16 (two processes each), and the
// per-run hashes - event logs of every pipeline execution, observable results,
// violation signatures - are compared. Any difference means the simulator (or
// the code under test) is not a pure function of the seed. It is a separate
// command and never changes the verdict of a property check.
func selftestMain(args []string) int {
	runs := 300
	if len(args) > 0 {
		if n, err := strconv.Atoi(args[0]); err == nil {
			runs = n
		}
	}
	start := time.Now()
	seed := seedFromEnv()
	bin := build(false, true)
	tmp, _ := os.MkdirTemp(buildDir, "selftest-")
	defer os.RemoveAll(tmp)
	propsList := []string{"C06", "C07", "C08", "C09", "C11", "C13", "C14", "C16", "C19"}
	type key struct {
		prop string
		idx  int
	}
	var mu sync.Mutex
	seen := map[key]map[uint64][]string{}
	nproc := 0
	sem := make(chan struct{}, workersFromEnv())
	var wg sync.WaitGroup
	for _, prop := range propsList {
		n := runs
		if prop == "C13" {
			n = runs / 10
		}
		for _, g := range []int{1, 4, 16} {
			for rep := 0; rep < 2; rep++ {
				wg.Add(1)
				go func(prop string, g, rep, n int) {
					defer wg.Done()
					sem <- struct{}{}
					defer func() { <-sem }()
					r := &runner{prop: prop, cfg: props[prop], tier: "quick", seed: seed, bin: bin, tmp: tmp}
					out := filepath.Join(tmp, fmt.Sprintf("%s-%d-%d.json", prop, g, rep))
					r.runOne([]string{"VERIF_FROM=0", "VERIF_TO=" + strconv.Itoa(n), "VERIF_OUT=" + out, "VERIF_RUNHASHES=1",
						"VERIF_NOSHRINK=1", "GOMAXPROCS=" + strconv.Itoa(g), "VERIF_REPLAYS=" + filepath.Join(tmp, "replays")}, 20*time.Minute)
					var wr sim.WorkerResult
					if !readJSON(out, &wr) || !wr.Complete {
						fmt.Printf("selftest: %s GOMAXPROCS=%d rep %d: worker did not complete\n", prop, g, rep)
						return
					}
					mu.Lock()
					nproc++
					for idx, h := range wr.RunHashes {
						k := key{prop, idx}
						if seen[k] == nil {
							seen[k] = map[uint64][]string{}
						}
						seen[k][h] = append(seen[k][h], fmt.Sprintf("P%d/%d", g, rep))
					}
					mu.Unlock()
				}(prop, g, rep, n)
			}
		}
	}
	wg.Wait()
	bad := 0
	var keys []key
	for k := range seen {
		keys = append(keys, k)
	}
	sort.Slice(keys, func(i, j int) bool {
		if keys[i].prop != keys[j].prop {
			return keys[i].prop < keys[j].prop
		}
		return keys[i].idx < keys[j].idx
	})
	for _, k := range keys {
		if len(seen[k]) > 1 {
			bad++
			if bad <= 20 {
				fmt.Printf("selftest: NONDETERMINISTIC %s run %d: %v\n", k.prop, k.idx, seen[k])
			}
		}
	}
	fmt.Printf("selftest: %d worker processes, %d (property, run) pairs compared across GOMAXPROCS 1/4/16 x2, %d differ, %.1fs\n", nproc, len(keys), bad, time.Since(start).Seconds())
	if bad > 0 {
		return 1
	}
	return 0
}
