// Command verif is the parent process of a check: it rebuilds the worker
// binary against /repo's working tree, fans run indices out over worker
// processes, supervises them (a worker that dies is a finding, not an
// accident), merges their reports, applies the known-findings file, writes
// the evidence file and decides the exit status:
//
//	0  property held on everything explored (known findings are listed)
//	1  a violation not listed in known_findings.jsonl ("VIOLATION ..." lines)
//	2  the harness itself could not do its job (never printed as a violation)
package main

import (
	"bufio"
	"bytes"
	"encoding/binary"
	"encoding/json"
	"fmt"
	"os"
	"os/exec"
	"path/filepath"
	"regexp"
	"runtime"
	"sort"
	"strconv"
	"strings"
	"sync"
	"time"

	"verifharness/sim"
)

// verifDir is where the check script lives (a snapshot under vp run, else /verif).
var verifDir = func() string {
	if d := os.Getenv("VERIF_DIR"); d != "" {
		return d
	}
	return "/verif"
}()

var (
	buildDir = func() string {
		if d := os.Getenv("VERIF_BUILD"); d != "" {
			return d
		}
		return filepath.Join(verifDir, ".build")
	}()
	harness = filepath.Join(verifDir, "harness")
	// repoDir is the tree under test: /repo, unless VERIF_REPO names a scratch copy
	// (used only by the harness's own sensitivity trials, never by a registered check).
	repoDir = func() string {
		if d := os.Getenv("VERIF_REPO"); d != "" {
			return d
		}
		return "/repo"
	}()
)

// modfileArgs points the build at repoDir when it is not /repo.
func modfileArgs() []string {
	if repoDir == "/repo" {
		return nil
	}
	b, err := os.ReadFile(filepath.Join(harness, "go.mod"))
	if err != nil {
		fatal2("%v", err)
	}
	alt := filepath.Join(buildDir, "alt.mod")
	os.WriteFile(alt, []byte(strings.Replace(string(b), "=> /repo", "=> "+repoDir, 1)), 0o644)
	if sum, err := os.ReadFile(filepath.Join(repoDir, "go.sum")); err == nil {
		os.WriteFile(filepath.Join(buildDir, "alt.sum"), sum, 0o644)
	}
	return []string{"-modfile=" + alt}
}

// propCfg sizes a check per tier.
type propCfg struct {
	QuickRuns   int
	Chunk       int
	ThoroughS   int  // default wall-clock budget of the thorough tier, seconds
	Race        bool // needs the -race build
	Level       string
	StallS      int // watchdog: seconds without journal progress
	Gomaxprocs  []int
	GmpRotate   []int // chunk k runs at GmpRotate[k % len]: the number of CPUs is an environment dimension
	Digests     bool  // compare per-index digests across worker passes
	NeedsBclBin bool
	Workers     int
}

var props = map[string]propCfg{
	"C06": {GmpRotate: []int{16, 1, 4, 2}, QuickRuns: 60000, Chunk: 1500, ThoroughS: 900, Level: "exploration", StallS: 30},
	"C07": {GmpRotate: []int{16, 1, 4, 2}, QuickRuns: 40000, Chunk: 1000, ThoroughS: 900, Level: "exploration", StallS: 30},
	"C08": {GmpRotate: []int{16, 1, 4, 2}, QuickRuns: 30000, Chunk: 800, ThoroughS: 900, Level: "exploration", StallS: 30},
	"C09": {QuickRuns: 20000, Chunk: 500, ThoroughS: 900, Level: "exploration", StallS: 30},
	"C11": {GmpRotate: []int{16, 1, 4, 2}, QuickRuns: 60000, Chunk: 1500, ThoroughS: 900, Level: "exploration", StallS: 30},
	"C12": {QuickRuns: 6000, Chunk: 200, ThoroughS: 900, Level: "exploration", StallS: 120, Race: true},
	"C13": {QuickRuns: 640, Chunk: 20, ThoroughS: 900, Level: "fault_enumeration", StallS: 30},
	"C14": {QuickRuns: 24000, Chunk: 500, ThoroughS: 600, Level: "other", StallS: 30},
	"C16": {QuickRuns: 6000, Chunk: 250, ThoroughS: 900, Level: "exploration", StallS: 30, Gomaxprocs: []int{1, 4, 16}, Digests: true},
	"C18": {QuickRuns: 6000, Chunk: 100, ThoroughS: 900, Level: "fault_enumeration", StallS: 120, NeedsBclBin: true},
	"C19": {GmpRotate: []int{16, 1, 4, 2}, QuickRuns: 12000, Chunk: 400, ThoroughS: 900, Level: "exploration", StallS: 30},
}

func fatal2(format string, a ...any) {
	fmt.Fprintf(os.Stderr, "verif: "+format+"\n", a...)
	removeBinaries()
	os.Exit(2)
}

func goEnv() []string {
	env := os.Environ()
	set := func(k, v string) {
		for i, e := range env {
			if strings.HasPrefix(e, k+"=") {
				env[i] = k + "=" + v
				return
			}
		}
		env = append(env, k+"="+v)
	}
	set("GOFLAGS", "-mod=mod")
	set("GOPROXY", "off")
	set("GOSUMDB", "off")
	set("GOTOOLCHAIN", "local")
	set("GOCACHE", "/verif/.cache")
	return env
}

func goTool() string {
	if p, err := exec.LookPath("go1.26.8"); err == nil {
		return p
	}
	return "/opt/veriftools/go1.26.8/bin/go"
}

// build compiles the worker test binary (and optionally cmd/bcl) against the
// current /repo working tree.
func build(race bool, withBcl bool) string {
	os.MkdirAll(buildDir, 0o755)
	// keep go.sum in step with /repo
	if b, err := os.ReadFile(filepath.Join(repoDir, "go.sum")); err == nil && repoDir == "/repo" {
		os.WriteFile(filepath.Join(harness, "go.sum"), b, 0o644)
	}
	// one binary per invocation: two checks may run side by side on the same tree
	out := filepath.Join(buildDir, fmt.Sprintf("sim-%d.test", os.Getpid()))
	args := []string{"test", "-c", "-o", out}
	if race {
		out = filepath.Join(buildDir, fmt.Sprintf("sim-%d.race.test", os.Getpid()))
		args = []string{"test", "-c", "-race", "-o", out}
	}
	builtBinaries = append(builtBinaries, out)
	args = append(args, modfileArgs()...)
	args = append(args, "./sim")
	cmd := exec.Command(goTool(), args...)
	cmd.Dir = harness
	cmd.Env = goEnv()
	if b, err := cmd.CombinedOutput(); err != nil {
		fatal2("cannot build the worker against /repo (this is not a property violation):\n%s", b)
	}
	if withBcl {
		bclBin = filepath.Join(buildDir, fmt.Sprintf("bcl-%d", os.Getpid()))
		builtBinaries = append(builtBinaries, bclBin)
		bargs := append([]string{"build", "-o", bclBin}, modfileArgs()...)
		cmd := exec.Command(goTool(), append(bargs, "github.com/wkhere/bcl/cmd/bcl")...)
		cmd.Dir = harness
		cmd.Env = goEnv()
		if b, err := cmd.CombinedOutput(); err != nil {
			fatal2("cannot build cmd/bcl (this is not a property violation):\n%s", b)
		}
	}
	return out
}

var builtBinaries []string
var bclBin string

func removeBinaries() {
	for _, b := range builtBinaries {
		os.Remove(b)
	}
}

// ---- known findings

type finding struct {
	Status    string `json:"status"` // known | fixed
	Property  string `json:"property"`
	ID        string `json:"id"`
	Signature string `json:"signature"` // regexp over the violation signature
	What      string `json:"what"`
	Commit    string `json:"commit,omitempty"`
	re        *regexp.Regexp
}

func loadFindings() []finding {
	var out []finding
	f, err := os.Open(filepath.Join(verifDir, "known_findings.jsonl"))
	if err != nil {
		return nil
	}
	defer f.Close()
	s := bufio.NewScanner(f)
	s.Buffer(make([]byte, 1<<20), 1<<20)
	for s.Scan() {
		line := strings.TrimSpace(s.Text())
		if line == "" || strings.HasPrefix(line, "#") || strings.HasPrefix(line, "fixed:") {
			continue
		}
		var fd finding
		if err := json.Unmarshal([]byte(line), &fd); err != nil {
			fatal2("known_findings.jsonl: %v", err)
		}
		if fd.Status == "known" {
			re, err := regexp.Compile(fd.Signature)
			if err != nil {
				fatal2("known_findings.jsonl: %s: %v", fd.ID, err)
			}
			fd.re = re
		}
		out = append(out, fd)
	}
	return out
}

// ---- supervising workers

type chunk struct{ from, to int }

type runner struct {
	prop     string
	cfg      propCfg
	tier     string
	seed     uint64
	bin      string
	tmp      string
	mu       sync.Mutex
	results  []*sim.WorkerResult
	crashes  []sim.Violation
	trouble  []string
	nproc    int
	excluded int
	deaths   int  // workers that died or stalled and were confirmed as violations
	aborted  bool // enough process-killing violations: stop dispatching (the verdict is settled)
	extraEnv []string
}

func (r *runner) workerCmd(env ...string) *exec.Cmd {
	cmd := exec.Command(r.bin, "-test.run", "^TestWorker$", "-test.timeout", "0", "-test.count", "1")
	cmd.Env = append(os.Environ(),
		"VERIF_PROP="+r.prop, "VERIF_TIER="+r.tier, "VERIF_SEED="+strconv.FormatUint(r.seed, 10),
		"VERIF_BCL_BIN="+bclBin, "VERIF_DIR="+verifDir, "VERIF_TMP="+r.tmp,
		"GORACE=halt_on_error=0 history_size=2")
	if !r.cfg.Race {
		cmd.Env = append(cmd.Env, "VERIF_AS_LIMIT_MB=8192") // not for -race binaries: the detector reserves terabytes of address space
	}
	cmd.Env = append(cmd.Env, r.extraEnv...)
	cmd.Env = append(cmd.Env, env...)
	return cmd
}

var rePanic = regexp.MustCompile(`(?m)^(panic|fatal error): (.*)$`)
var reBclFrame = regexp.MustCompile(`(?m)^github\.com/wkhere/bcl[./]((?:\(\*?\w+\)\.)?[\w.]+)`)

// crashSig extracts a normalised signature from the stderr of a dead worker.
// The panic is attributed to bcl only if, going from the innermost frame of
// the panicking goroutine outwards, a bcl frame comes before any harness
// frame (standard-library and runtime frames are skipped). A panic whose
// innermost own-code frame is the harness is a harness defect: sig is
// "harness:..." and it is reported as trouble, never as a violation.
func crashSig(stderr string) (sig, detail string) {
	m := rePanic.FindStringSubmatchIndex(stderr)
	if m == nil {
		return "", ""
	}
	msg := stderr[m[4]:m[5]]
	rest := stderr[m[1]:]
	frame, owner := "", ""
	if strings.Contains(msg, "synctest") || strings.Contains(msg, "outside bubble") {
		// a channel made inside one bubble was used in another: the library keeps channels from
		// call to call. That is legal Go; it is the simulator that cannot follow (every run has a
		// bubble of its own). A limit of the harness, never a violation; C11's history check
		// (c11hist.go) runs outside the bubble for exactly this kind of state.
		return "harness:synctest cannot follow channels kept between calls", msg
	}
	if strings.Contains(msg, "all goroutines are asleep") {
		// the runtime found every goroutine blocked for good (e.g. on a mutex that is never
		// released): it is bcl's doing if some goroutine is blocked with a bcl frame innermost
		for _, blk := range strings.Split(rest, "\n\n") {
			for _, l := range strings.Split(blk, "\n") {
				if strings.HasPrefix(l, "github.com/wkhere/bcl") {
					if fm := reBclFrame.FindStringSubmatch(l); fm != nil {
						return "crash:deadlock, all goroutines asleep@" + fm[1], "fatal error: all goroutines are asleep - deadlock! (blocked in " + fm[1] + ")"
					}
				}
				if strings.HasPrefix(l, "verifharness/") {
					break
				}
			}
		}
	}
	if i := strings.Index(rest, "goroutine "); i >= 0 {
		blk := rest[i:]
		if j := strings.Index(blk, "\n\n"); j >= 0 {
			blk = blk[:j]
		}
		for _, l := range strings.Split(blk, "\n") {
			if strings.HasPrefix(l, "github.com/wkhere/bcl") {
				if fm := reBclFrame.FindStringSubmatch(l); fm != nil {
					frame, owner = fm[1], "bcl"
				} else {
					frame, owner = "?", "bcl"
				}
				break
			}
			if strings.HasPrefix(l, "verifharness/") {
				owner = "harness"
				frame = strings.SplitN(l, "(", 2)[0]
				break
			}
		}
	}
	msg = strings.TrimSuffix(msg, " [recovered]")
	msg = strings.TrimSuffix(msg, " [recovered, repanicked]")
	norm := regexp.MustCompile(`0x[0-9a-f]+|\d+`).ReplaceAllString(msg, "N")
	if len(norm) > 120 {
		norm = norm[:120]
	}
	d := msg
	if len(d) > 300 {
		d = d[:300]
	}
	if strings.Contains(msg, "stack overflow") || strings.Contains(msg, "stack exceeds") {
		// the runtime prints "runtime: goroutine stack exceeds ..." before the
		// fatal error; look for a bcl frame anywhere in the overflowing stack
		if fm := reBclFrame.FindStringSubmatch(rest); fm != nil {
			return "crash:stack overflow@" + fm[1], d
		}
	}
	switch owner {
	case "bcl":
		return "crash:" + norm + "@" + frame, d
	case "harness":
		return "harness:" + norm + "@" + frame, d
	}
	return "harness:" + norm + "@unattributed", d
}

// runOne runs a single scenario (by index or replay file) in a fresh process
// with a timeout and reports how it ended.
func (r *runner) runOne(env []string, timeout time.Duration) (exit int, stdout, stderr string, timedOut bool) {
	cmd := r.workerCmd(env...)
	var so, se bytes.Buffer
	cmd.Stdout, cmd.Stderr = &so, &se
	if err := cmd.Start(); err != nil {
		fatal2("cannot start worker: %v", err)
	}
	done := make(chan error, 1)
	go func() { done <- cmd.Wait() }()
	select {
	case err := <-done:
		if err != nil {
			if ee, ok := err.(*exec.ExitError); ok {
				exit = ee.ExitCode()
			} else {
				exit = -1
			}
		}
	case <-time.After(timeout):
		cmd.Process.Kill()
		<-done
		timedOut = true
		exit = -1
	}
	return exit, so.String(), se.String(), timedOut
}

// processChunk runs one chunk to completion, restarting after crashes.
// maxDeaths bounds the cost of a tree that keeps killing or stalling workers: every death costs
// up to two supervisor periods, and after a handful the verdict cannot change any more.
const maxDeaths = 6

func (r *runner) processChunk(c chunk, id int, gmp int, deadline time.Time) {
	from := c.from
	for from < c.to {
		r.mu.Lock()
		ab := r.aborted
		r.mu.Unlock()
		if ab {
			return
		}
		tag := fmt.Sprintf("w%d-%d", id, from)
		outPath := filepath.Join(r.tmp, tag+".json")
		jPath := filepath.Join(r.tmp, tag+".journal")
		sePath := filepath.Join(r.tmp, tag+".stderr")
		env := []string{
			"VERIF_FROM=" + strconv.Itoa(from), "VERIF_TO=" + strconv.Itoa(c.to),
			"VERIF_OUT=" + outPath, "VERIF_JOURNAL=" + jPath,
		}
		if gmp > 0 {
			env = append(env, "GOMAXPROCS="+strconv.Itoa(gmp))
		}
		if r.cfg.Digests {
			env = append(env, "VERIF_DIGESTS=1")
		}
		if r.cfg.Race {
			env = append(env, "VERIF_MARK_STDERR=1")
		}
		if !deadline.IsZero() {
			ms := time.Until(deadline).Milliseconds()
			if ms <= 0 {
				return
			}
			env = append(env, "VERIF_BUDGET_MS="+strconv.FormatInt(ms, 10))
		}
		cmd := r.workerCmd(env...)
		sef, _ := os.Create(sePath)
		cmd.Stderr = sef
		cmd.Stdout = nil
		if err := cmd.Start(); err != nil {
			fatal2("cannot start worker: %v", err)
		}
		done := make(chan error, 1)
		go func() { done <- cmd.Wait() }()
		// watchdog on journal progress
		stalled := false
		lastSize, lastChange := int64(-1), time.Now()
		tick := time.NewTicker(500 * time.Millisecond)
	wait:
		for {
			select {
			case <-done:
				break wait
			case <-tick.C:
				if st, err := os.Stat(jPath); err == nil && st.Size() != lastSize {
					lastSize, lastChange = st.Size(), time.Now()
				}
				if time.Since(lastChange) > time.Duration(r.cfg.StallS)*time.Second {
					stalled = true
					cmd.Process.Kill()
					<-done
					break wait
				}
			}
		}
		tick.Stop()
		sef.Close()
		var wr sim.WorkerResult
		haveRes := false
		if b, err := os.ReadFile(outPath); err == nil && json.Unmarshal(b, &wr) == nil {
			haveRes = true
		}
		if haveRes && wr.Complete {
			r.mu.Lock()
			r.results = append(r.results, &wr)
			r.nproc++
			r.mu.Unlock()
			if r.cfg.Race {
				r.scanRaces(sePath, gmp)
			}
			return
		}
		// the worker died (or stalled): attribute to the last begun index
		last := lastBegun(jPath)
		seb, _ := os.ReadFile(sePath)
		if last < 0 {
			r.mu.Lock()
			r.trouble = append(r.trouble, fmt.Sprintf("worker %s died before its first run:\n%s", tag, tail(string(seb), 2000)))
			r.mu.Unlock()
			return
		}
		if haveRes {
			// keep the statistics of the runs that did finish (violations included)
			wr.Complete = false
			r.mu.Lock()
			r.results = append(r.results, &wr)
			r.mu.Unlock()
		}
		if r.cfg.Race {
			r.scanRaces(sePath, gmp)
			if !stalled && strings.Contains(string(seb), "WARNING: DATA RACE") && !rePanic.MatchString(string(seb)) {
				// the testing package fails (and ends) a test in which the race
				// detector reported something; the reports were taken above
				from = last + 1
				continue
			}
		}
		r.mu.Lock()
		r.deaths++
		skip := r.deaths > maxDeaths
		r.mu.Unlock()
		if !skip {
			r.handleDeath(last, stalled, string(seb), gmp)
		}
		r.mu.Lock()
		if r.deaths >= maxDeaths {
			// with or without a confirmed crash: the violations the dead workers recorded before
			// dying are kept, and deaths nobody can explain are reported as trouble (exit 2)
			r.aborted = true
		}
		r.mu.Unlock()
		from = last + 1
	}
}

func tail(s string, n int) string {
	if len(s) > n {
		return s[len(s)-n:]
	}
	return s
}

func lastBegun(jPath string) int {
	b, err := os.ReadFile(jPath)
	if err != nil {
		return -1
	}
	last := -1
	for _, l := range strings.Split(string(b), "\n") {
		if strings.HasPrefix(l, "B ") {
			if n, err := strconv.Atoi(strings.TrimSpace(l[2:])); err == nil {
				last = n
			}
		}
	}
	return last
}

// handleDeath confirms a process-killing run in a fresh process, minimises
// it through child processes and records the violation.
func (r *runner) handleDeath(idx int, stalled bool, stderr string, gmp int) {
	scPath := filepath.Join(r.tmp, fmt.Sprintf("crash-%d.scenario.json", idx))
	r.runOne([]string{"VERIF_DUMPSCENARIO=" + strconv.Itoa(idx), "VERIF_OUT=" + scPath}, 60*time.Second)
	sc, err := sim.LoadScenario(scPath)
	if err != nil {
		r.mu.Lock()
		r.trouble = append(r.trouble, fmt.Sprintf("cannot regenerate scenario %d: %v", idx, err))
		r.mu.Unlock()
		return
	}
	timeout := time.Duration(r.cfg.StallS) * time.Second
	classify := func(c *sim.Scenario) (string, string) {
		p := filepath.Join(r.tmp, fmt.Sprintf("cand-%d-%d.json", idx, time.Now().UnixNano()))
		c.Save(p)
		defer os.Remove(p)
		exit, _, se, to := r.runOne([]string{"VERIF_REPLAY=" + p}, timeout)
		if to {
			return "livelock:no progress within the wall-clock limit", "the run neither finished nor reached quiescence within " + timeout.String()
		}
		if exit != 0 {
			if s, d := crashSig(se); s != "" {
				return s, d
			}
			return "crash:worker exited with status " + strconv.Itoa(exit), tail(se, 400)
		}
		return "", ""
	}
	sig, detail := classify(sc)
	if oomExcluded(sig, stderr, sc) {
		r.mu.Lock()
		r.excluded++
		r.deaths-- // an excluded input, not a death that says anything about the tree
		r.mu.Unlock()
		return
	}
	if strings.HasPrefix(sig, "harness:") {
		r.mu.Lock()
		r.trouble = append(r.trouble, fmt.Sprintf("HARNESS DEFECT at run %d: %s: %s", idx, sig, detail))
		r.mu.Unlock()
		return
	}
	if sig == "" {
		// did not reproduce alone: report what the batch run showed, if anything
		if s, d := crashSig(stderr); s != "" && !strings.HasPrefix(s, "harness:") {
			sig, detail = s, d+" (seen in a batch run; did not recur when the scenario ran alone)"
		} else if stalled {
			r.mu.Lock()
			r.trouble = append(r.trouble, fmt.Sprintf("run %d stalled in a batch but finished when run alone (machine load?)", idx))
			r.mu.Unlock()
			return
		} else {
			r.mu.Lock()
			r.trouble = append(r.trouble, fmt.Sprintf("worker died at run %d without a recognisable report:\n%s", idx, tail(stderr, 1500)))
			r.mu.Unlock()
			return
		}
		v := sim.Violation{Prop: r.prop, Kind: strings.SplitN(sig, ":", 2)[0], Sig: sig, Detail: detail, Scenario: sc, Count: 1}
		v.Replay = sim.SaveReplay(&v)
		r.mu.Lock()
		r.crashes = append(r.crashes, v)
		r.mu.Unlock()
		return
	}
	r.mu.Lock()
	for i := range r.crashes {
		if r.crashes[i].Sig == sig {
			r.crashes[i].Count++
			r.mu.Unlock()
			return
		}
	}
	r.mu.Unlock()
	budget := 60
	if strings.HasPrefix(sig, "livelock") {
		budget = 1 // every candidate that still hangs costs a full supervisor period
	}
	min := sim.Shrink(sc, sig, budget, func(c *sim.Scenario) bool {
		s, _ := classify(c)
		return s == sig
	})
	v := sim.Violation{Prop: r.prop, Kind: strings.SplitN(sig, ":", 2)[0], Sig: sig, Detail: detail, Scenario: min, Count: 1, Repro: true}
	v.Replay = sim.SaveReplay(&v)
	r.mu.Lock()
	r.crashes = append(r.crashes, v)
	r.mu.Unlock()
}

// oomExcluded recognises the one case the properties exclude: a run whose legitimate result
// does not fit in memory (string repetition). It is accepted only when the runtime itself
// reported memory exhaustion (or the overflow check of strings.Repeat) and the source
// contains a '*'; such runs are counted in the evidence, not reported.
func oomExcluded(sig, batchStderr string, sc *sim.Scenario) bool {
	if bytes.IndexByte(sc.Src, '*') < 0 {
		return false
	}
	for _, s := range []string{sig, batchStderr} {
		if strings.Contains(s, "out of memory") || strings.Contains(s, "Repeat output length overflow") || strings.Contains(s, "cannot allocate memory") {
			return true
		}
	}
	return false
}

// ---- race reports (C12)

var reRaceFrame = regexp.MustCompile(`(?m)^\s+github\.com/wkhere/bcl[./]((?:\(\*?\w+\)\.)?[\w.]+)\(`)

func (r *runner) scanRaces(sePath string, gmp int) {
	b, err := os.ReadFile(sePath)
	if err != nil {
		return
	}
	text := string(b)
	cur := -1
	lines := strings.Split(text, "\n")
	for i := 0; i < len(lines); i++ {
		l := lines[i]
		if strings.HasPrefix(l, "BEGIN ") {
			cur, _ = strconv.Atoi(strings.TrimSpace(l[6:]))
			continue
		}
		if !strings.HasPrefix(l, "WARNING: DATA RACE") {
			continue
		}
		j := i + 1
		for j < len(lines) && !strings.HasPrefix(lines[j], "==================") {
			j++
		}
		report := strings.Join(lines[i:j], "\n")
		i = j
		// innermost bcl frame of each of the two accesses
		parts := strings.Split(report, "\n\n")
		var frames []string
		for _, p := range parts {
			if strings.HasPrefix(strings.TrimSpace(p), "Goroutine") {
				continue
			}
			if m := reRaceFrame.FindStringSubmatch(p); m != nil {
				frames = append(frames, m[1])
			}
		}
		if len(frames) == 0 {
			if !strings.Contains(report, "github.com/wkhere/bcl") {
				r.mu.Lock()
				r.trouble = append(r.trouble, "race report without a bcl frame (harness defect?):\n"+tail(report, 1500))
				r.mu.Unlock()
			}
			continue
		}
		sort.Strings(frames)
		if len(frames) > 2 {
			frames = frames[:2]
		}
		sig := "race:" + strings.Join(frames, "|")
		r.mu.Lock()
		dup := false
		for k := range r.crashes {
			if r.crashes[k].Sig == sig {
				r.crashes[k].Count++
				dup = true
			}
		}
		r.mu.Unlock()
		if dup {
			continue
		}
		v := sim.Violation{Prop: r.prop, Kind: "race", Sig: sig, Detail: short(report, 2500), Count: 1}
		if cur >= 0 {
			scPath := filepath.Join(r.tmp, fmt.Sprintf("race-%d.scenario.json", cur))
			r.runOne([]string{"VERIF_DUMPSCENARIO=" + strconv.Itoa(cur), "VERIF_OUT=" + scPath}, 60*time.Second)
			if sc, err := sim.LoadScenario(scPath); err == nil {
				v.Scenario = sc
				// re-run alone to see whether the report recurs
				p := filepath.Join(r.tmp, fmt.Sprintf("racecand-%d.json", cur))
				sc.Save(p)
				_, _, se, _ := r.runOne([]string{"VERIF_REPLAY=" + p}, 120*time.Second)
				v.Repro = strings.Contains(se, "WARNING: DATA RACE")
			}
		}
		if v.Scenario == nil {
			v.Scenario = &sim.Scenario{Prop: r.prop, Seed: r.seed, Idx: cur}
		}
		v.Replay = sim.SaveReplay(&v)
		r.mu.Lock()
		r.crashes = append(r.crashes, v)
		r.mu.Unlock()
	}
}

func short(s string, n int) string {
	if len(s) > n {
		return s[:n] + "..."
	}
	return s
}

// ---- main

func main() {
	if len(os.Args) < 2 {
		fatal2("usage: verif run <Cnn> <quick|thorough> | replay <file> | setup | selftest")
	}
	switch os.Args[1] {
	case "setup":
		build(false, true)
		build(true, false)
		removeBinaries() // setup only warms the build cache
		fmt.Println("setup: build cache warmed (plain and -race worker, cmd/bcl)")
	case "run":
		if len(os.Args) < 4 {
			fatal2("usage: verif run <Cnn> <quick|thorough>")
		}
		rc := runCheck(os.Args[2], os.Args[3])
		removeBinaries()
		os.Exit(rc)
	case "replay":
		if len(os.Args) < 3 {
			fatal2("usage: verif replay <file>")
		}
		rc := replay(os.Args[2])
		removeBinaries()
		os.Exit(rc)
	case "selftest":
		rc := selftest(os.Args[2:])
		removeBinaries()
		os.Exit(rc)
	default:
		fatal2("unknown command %q", os.Args[1])
	}
}

func seedFromEnv() uint64 {
	if v := os.Getenv("VERIF_SEED"); v != "" {
		if n, err := strconv.ParseUint(v, 10, 64); err == nil {
			return n
		}
		if n, err := strconv.ParseInt(v, 10, 64); err == nil {
			return uint64(n)
		}
	}
	return 20260928
}

func workersFromEnv() int {
	if v := os.Getenv("VERIF_WORKERS"); v != "" {
		if n, err := strconv.Atoi(v); err == nil && n > 0 {
			return n
		}
	}
	n := runtime.NumCPU()
	if n > 16 {
		n = 16
	}
	return n
}

func replay(path string) int {
	sc, err := sim.LoadScenario(path)
	if err != nil {
		fatal2("%v", err)
	}
	cfg, ok := props[sc.Prop]
	if !ok {
		fatal2("replay file names unknown property %q", sc.Prop)
	}
	bin := build(cfg.Race, cfg.NeedsBclBin)
	tmp, _ := os.MkdirTemp(buildDir, "replay-")
	defer os.RemoveAll(tmp)
	r := &runner{prop: sc.Prop, cfg: cfg, tier: "quick", seed: sc.Seed, bin: bin, tmp: tmp}
	env := []string{"VERIF_REPLAY=" + path}
	if g := sc.Int("gomaxprocs", 0); g > 0 {
		env = append(env, "GOMAXPROCS="+strconv.Itoa(g))
	}
	exit, so, se, to := r.runOne(env, 10*time.Minute)
	got := ""
	switch {
	case to:
		got = "livelock:no progress within the wall-clock limit"
	case strings.HasPrefix(sc.ExpectSig, "race:"):
		if strings.Contains(se, "WARNING: DATA RACE") {
			got = sc.ExpectSig
		}
	case exit != 0:
		got, _ = crashSig(se)
	}
	for _, l := range strings.Split(so, "\n") {
		if strings.HasPrefix(l, "REPLAY-VIOLATION sig=") {
			s, _ := strconv.Unquote(strings.TrimPrefix(l, "REPLAY-VIOLATION sig="))
			if s == sc.ExpectSig || got == "" {
				got = s
			}
		}
	}
	if got != "" && (got == sc.ExpectSig || sc.ExpectSig == "") {
		fmt.Printf("VIOLATION property=%s replay=%s\n", sc.Prop, path)
		fmt.Printf("  signature: %s\n  %s\n", got, sc.Detail)
		return 1
	}
	if got != "" {
		fmt.Printf("replay produced a different violation: %s (expected %s)\n", got, sc.ExpectSig)
		fmt.Printf("VIOLATION property=%s replay=%s\n", sc.Prop, path)
		return 1
	}
	fmt.Printf("replay of %s: no violation (expected %s)\n", path, sc.ExpectSig)
	return 0
}

func runCheck(prop, tier string) int {
	cfg, ok := props[prop]
	if !ok {
		fatal2("unknown or unclaimed property %q", prop)
	}
	if tier != "quick" && tier != "thorough" {
		fatal2("tier must be quick or thorough")
	}
	start := time.Now()
	seed := seedFromEnv()
	bin := build(cfg.Race, cfg.NeedsBclBin)
	os.MkdirAll(buildDir, 0o755)
	tmp, err := os.MkdirTemp(buildDir, "run-"+prop+"-")
	if err != nil {
		fatal2("%v", err)
	}
	defer os.RemoveAll(tmp)
	r := &runner{prop: prop, cfg: cfg, tier: tier, seed: seed, bin: bin, tmp: tmp}
	nw := workersFromEnv()
	if cfg.Workers > 0 && cfg.Workers < nw {
		nw = cfg.Workers
	}

	total := cfg.QuickRuns
	if v := os.Getenv("VERIF_RUNS"); v != "" {
		if n, err := strconv.Atoi(v); err == nil {
			total = n
		}
	}
	var deadline time.Time
	if tier == "thorough" {
		budget := cfg.ThoroughS
		if v := os.Getenv("VERIF_BUDGET_S"); v != "" {
			if n, err := strconv.Atoi(v); err == nil {
				budget = n
			}
		}
		deadline = start.Add(time.Duration(budget) * time.Second)
		total = 1 << 30
	}
	gmps := cfg.Gomaxprocs
	if len(gmps) == 0 {
		gmps = []int{0}
	}
	// work queue of chunks
	type job struct {
		c   chunk
		gmp int
	}
	jobs := make(chan job)
	var wg sync.WaitGroup
	for w := 0; w < nw; w++ {
		wg.Add(1)
		go func(w int) {
			defer wg.Done()
			for j := range jobs {
				r.processChunk(j.c, w, j.gmp, deadline)
			}
		}(w)
	}
	for from := 0; from < total; from += cfg.Chunk {
		if !deadline.IsZero() && time.Now().After(deadline) {
			break
		}
		to := from + cfg.Chunk
		if to > total {
			to = total
		}
		for _, g := range gmps {
			if g == 0 && len(cfg.GmpRotate) > 0 {
				g = cfg.GmpRotate[(from/cfg.Chunk)%len(cfg.GmpRotate)]
			}
			jobs <- job{chunk{from, to}, g}
		}
	}
	close(jobs)
	wg.Wait()
	return r.finish(start)
}

// finish merges worker reports, applies known findings, writes evidence.
func (r *runner) finish(start time.Time) int {
	type agg struct {
		runs, evals, nontrivial, skipped int
		steps                            int64
		faults, probes, classes          map[string]int
		scheds                           int
	}
	a := agg{faults: map[string]int{}, probes: map[string]int{}, classes: map[string]int{}}
	hashes := map[uint64]struct{}{}
	states := map[uint64]struct{}{}
	var samples []map[string]any
	viols := map[string]*sim.Violation{}
	var order []string
	addV := func(v sim.Violation) {
		if old, ok := viols[v.Sig]; ok {
			old.Count += v.Count
			return
		}
		vv := v
		viols[v.Sig] = &vv
		order = append(order, v.Sig)
	}
	digests := map[int]map[int]string{} // idx -> gomaxprocs -> digest
	firstGmp := -1
	for _, wr := range r.results {
		if firstGmp < 0 {
			firstGmp = wr.Gomaxprocs
		}
		// statistics count one pass only when the same indices are run at several GOMAXPROCS
		a.runs += wr.Runs
		a.evals += wr.Evals
		a.nontrivial += wr.Nontrivial
		a.skipped += wr.Skipped
		a.steps += wr.Steps
		a.scheds += wr.Scheds
		for k, v := range wr.Faults {
			a.faults[k] += v
		}
		for k, v := range wr.Probes {
			a.probes[k] += v
		}
		for k, v := range wr.Classes {
			a.classes[k] += v
		}
		for _, h := range wr.States {
			states[h] = struct{}{}
		}
		if wr.HashFile != "" {
			if b, err := os.ReadFile(wr.HashFile); err == nil {
				for i := 0; i+8 <= len(b); i += 8 {
					hashes[binary.LittleEndian.Uint64(b[i:])] = struct{}{}
				}
			}
		}
		if len(samples) < 5 {
			samples = append(samples, wr.Samples...)
		}
		for _, v := range wr.Violations {
			addV(v)
		}
		for idx, d := range wr.Digests {
			if digests[idx] == nil {
				digests[idx] = map[int]string{}
			}
			digests[idx][wr.Gomaxprocs] = d
		}
	}
	for _, v := range r.crashes {
		addV(v)
	}
	// cross-process digest comparison
	crossChecked := 0
	if r.cfg.Digests {
		idxs := make([]int, 0, len(digests))
		for i := range digests {
			idxs = append(idxs, i)
		}
		sort.Ints(idxs)
		for _, idx := range idxs {
			m := digests[idx]
			if len(m) < 2 {
				continue
			}
			crossChecked++
			var ref string
			same := true
			for _, d := range m {
				if ref == "" {
					ref = d
				} else if d != ref {
					same = false
				}
			}
			if !same {
				scPath := filepath.Join(r.tmp, fmt.Sprintf("x-%d.json", idx))
				r.runOne([]string{"VERIF_DUMPSCENARIO=" + strconv.Itoa(idx), "VERIF_OUT=" + scPath}, 60*time.Second)
				sc, _ := sim.LoadScenario(scPath)
				if sc == nil {
					sc = &sim.Scenario{Prop: r.prop, Seed: r.seed, Idx: idx}
				}
				v := sim.Violation{Prop: r.prop, Kind: "cross-process", Sig: "cross-process:outcome differs between worker processes",
					Detail: fmt.Sprintf("run %d: outcome digests by GOMAXPROCS: %v", idx, m), Scenario: sc, Count: 1}
				v.Replay = sim.SaveReplay(&v)
				addV(v)
			}
		}
	}

	findings := loadFindings()
	exit := 0
	known := []string{}
	var newViols []*sim.Violation
	for _, sig := range order {
		v := viols[sig]
		matched := false
		for _, f := range findings {
			if f.Status == "known" && f.Property == r.prop && f.re.MatchString(v.Sig) {
				fmt.Printf("KNOWN-FINDING: property=%s %s [%s; seen %d times; e.g. %s]\n", r.prop, f.What, f.ID, v.Count, v.Replay)
				known = append(known, f.ID)
				matched = true
				break
			}
		}
		if !matched {
			newViols = append(newViols, v)
		}
	}
	for _, v := range newViols {
		// confirm in a fresh process (ordinary violations were confirmed in-process only)
		if v.Replay != "" && !strings.HasPrefix(v.Sig, "crash:") && !strings.HasPrefix(v.Sig, "livelock:") &&
			!strings.HasPrefix(v.Sig, "race:") && !strings.HasPrefix(v.Sig, "cross-process:") {
			renv := []string{"VERIF_REPLAY=" + v.Replay}
			if v.Scenario != nil {
				if g := v.Scenario.Int("gomaxprocs", 0); g > 0 {
					renv = append(renv, "GOMAXPROCS="+strconv.Itoa(g))
				}
			}
			_, so, _, _ := r.runOne(renv, 5*time.Minute)
			rep := strings.Contains(so, "REPLAY-VIOLATION sig="+strconv.Quote(v.Sig))
			v.Repro = rep
			if sc, err := sim.LoadScenario(v.Replay); err == nil {
				sc.Reproduced = &rep
				sc.Save(v.Replay)
			}
		}
		fmt.Printf("VIOLATION property=%s replay=%s\n", r.prop, v.Replay)
		fmt.Printf("  kind=%s signature=%q seen=%d reproduced_on_replay=%v\n  %s\n", v.Kind, v.Sig, v.Count, v.Repro, strings.ReplaceAll(short(v.Detail, 1200), "\n", "\n  "))
		exit = 1
	}
	wall := time.Since(start).Seconds()

	if len(r.trouble) > 0 {
		for _, t := range r.trouble {
			fmt.Fprintf(os.Stderr, "verif: harness trouble: %s\n", t)
		}
	}
	if a.runs == 0 && len(newViols) == 0 {
		fatal2("no run completed; see messages above")
	}
	if a.runs == 0 {
		// every worker died or stalled in its first runs: the deaths are the evidence
		a.runs, a.evals = r.deaths, r.deaths
	}

	// evidence
	cov := map[string]any{
		"evaluations":         a.evals,
		"distinct_nontrivial": len(hashes),
		"rule":                sim.Registry[r.prop].Rule(),
		"samples":             samples,
		"runs":                a.runs,
		"nontrivial_runs":     a.nontrivial,
		"skipped":             a.skipped,
		"sim_steps_total":     a.steps,
		"fault_counts":        a.faults,
		"probe_counts":        a.probes,
		"input_classes":       a.classes,
		"distinct_schedules":  a.scheds,
		"runs_per_hour":       int(float64(a.runs) / wall * 3600),
		"seeds":               map[string]any{"VERIF_SEED": r.seed, "run_indices": a.runs},
		"workers":             workersFromEnv(),
		"worker_processes":    r.nproc,
		"toolchain":           "go1.26.8 testing/synctest",
		"components": map[string]any{
			"real": []string{"github.com/wkhere/bcl (lexer, parser, ParseFile goroutines and channels, Prog, Dump/Load, VM, Bind, options) rebuilt from /repo", "github.com/mohae/uvarint"},
			"stub": []string{"source file (SimFile)", "log/output writers (SimWriter)", "dump reader (SimReader)", "dump storage (SimDisk)", "seeded seam scheduler over a synctest bubble"},
		},
		"known_findings_matched": known,
		"simulated_time":         "bcl reads no clock; time is logical: one tick per scheduler decision (sim_steps_total)",
	}
	if len(states) > 0 {
		cov["distinct_states"] = len(states)
		cov["distinct_states_measure"] = "abstract quiescent states of the file pipeline: shape of the pending gate set (object, kind) x returned x closed x bucketed reads delivered / reads pending / Name calls / log and output writes released x flags (error delivered, input exhausted, zero-byte read seen, read after EOF)"
	}
	if r.excluded > 0 {
		cov["excluded_memory_exhaustion_runs"] = r.excluded
	}
	if r.cfg.Digests {
		cov["cross_process_digest_comparisons"] = crossChecked
		cov["gomaxprocs"] = r.cfg.Gomaxprocs
		cov["uncontrolled"] = []string{"map iteration order (sampled by repetition and by fresh processes, not scheduled)"}
	}
	if r.cfg.Level == "other" {
		cov["explanation"] = sim.Registry[r.prop].Rule()
	}
	if len(r.trouble) > 0 {
		cov["harness_trouble"] = r.trouble
	}
	if r.aborted {
		cov["stopped_early"] = fmt.Sprintf("after %d worker deaths or stalls: the remaining run indices were not executed (violations recorded before or by the deaths are reported; unexplained deaths are harness trouble, exit 2)", r.deaths)
	}
	unreached := []string{}
	for k, v := range a.probes {
		if v == 0 {
			unreached = append(unreached, k)
		}
	}
	sort.Strings(unreached)
	cov["unreached"] = unreached
	ev := map[string]any{
		"property_id": r.prop,
		"tier":        r.tier,
		"seed":        int64(r.seed),
		"level":       r.cfg.Level,
		"coverage":    cov,
		"assumptions": []string{
			"bcl's goroutines interact only through their channels between two seam events (confluence), so the state at quiescence is a function of the released gate; the determinism self-test re-checks this",
			"a clean batch is evidence, not proof: schedules, scripts and inputs are sampled from a seeded space",
		},
		"wall_s":     wall,
		"violations": len(newViols),
	}
	os.MkdirAll(filepath.Join(verifDir, "evidence"), 0o755)
	b, _ := json.MarshalIndent(ev, "", " ")
	if err := os.WriteFile(filepath.Join(verifDir, "evidence", r.prop+".json"), b, 0o644); err != nil {
		fatal2("cannot write evidence: %v", err)
	}
	fmt.Printf("%s %s: %d runs (%d evaluations, %d distinct non-trivial) in %.1fs, %d scheduler steps; faults fired: %v; violations: %d new, %d known\n",
		r.prop, r.tier, a.runs, a.evals, len(hashes), wall, a.steps, a.faults, len(newViols), len(known))
	if exit == 0 && len(r.trouble) > 0 && (a.runs == 0 || r.aborted) {
		// stopped after repeated worker deaths none of which could be shown to be bcl's doing
		return 2
	}
	return exit
}

func selftest(args []string) int { return selftestMain(args) }

func readJSON(path string, v any) bool {
	b, err := os.ReadFile(path)
	if err != nil {
		return false
	}
	return json.Unmarshal(b, v) == nil
}
