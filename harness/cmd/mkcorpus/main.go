// Command mkcorpus writes the C14 corpus. It is run ONCE, built against the
// pinned wkhere/bcl tree (a scratch worktree of commit d0f6a51, via
// -modfile), never by a check:
//
//	compiler-produced files are written by the pinned Dump;
//	hand-assembled files are written by the independent encoder (bcfmt);
//	every expectation is recorded by loading the file with the pinned
//	LoadProg (all at once) and executing it with the pinned Execute.
package main

import (
	"bytes"
	"encoding/json"
	"fmt"
	"math"
	"os"
	"path/filepath"
	"strings"

	"github.com/wkhere/bcl"

	"verifharness/bcfmt"
	"verifharness/gen"
	"verifharness/prng"
	"verifharness/sim"
)

var outDir string
var index []sim.CorpusEntry

func record(file, origin, desc string, data []byte, redump bool, feats ...string) {
	var out, log bytes.Buffer
	var prog *bcl.Prog
	var err error
	func() {
		defer func() {
			if r := recover(); r != nil {
				err = fmt.Errorf("PANIC %v", r)
			}
		}()
		prog, err = bcl.LoadProg(bytes.NewReader(data), "x", bcl.OptOutput(&out), bcl.OptLogger(&log))
	}()
	if err != nil {
		fmt.Printf("SKIP %s (%s): pinned LoadProg: %v\n", file, desc, err)
		return
	}
	ex := sim.Exec(prog, &out, &log, 0)
	if ex.Panic != "" {
		fmt.Printf("SKIP %s (%s): pinned Execute panics: %s\n", file, desc, ex.Panic)
		return
	}
	if redump {
		d2, e1, e2 := sim.DumpProg(prog)
		if e1 != "" || e2 != "" || !bytes.Equal(d2, data) {
			redump = false
		}
	}
	os.WriteFile(filepath.Join(outDir, file), data, 0o644)
	index = append(index, sim.CorpusEntry{File: file, Origin: origin, Desc: desc, Out: ex.Out, Log: ex.Log,
		Blocks: ex.Blocks, Binding: ex.Binding, Err: ex.Err, Redump: redump, Features: feats})
	fmt.Printf("ok   %s  %-60s out=%q err=%q\n", file, desc, short(ex.Out), short(ex.Err))
}

func short(s string) string {
	if len(s) > 50 {
		return s[:50] + "..."
	}
	return s
}

type file struct {
	f    bcfmt.File
	a    bcfmt.Asm
	desc string
}

func newFile(name, desc string) *file {
	return &file{f: bcfmt.File{Major: 1, Minor: 1, Name: name}, desc: desc}
}

func (x *file) k(v bcfmt.Value) uint64 {
	x.f.Consts = append(x.f.Consts, v)
	return uint64(len(x.f.Consts) - 1)
}

func (x *file) bytes() []byte {
	x.f.Code = x.a.Code
	x.f.Positions = x.a.Pos
	return x.f.Encode()
}

func main() {
	outDir = os.Args[1]
	os.MkdirAll(outDir, 0o755)

	// ---- A. written by the pinned Dump
	n := 0
	for i := 0; n < 70 && i < 400; i++ {
		r := prng.New(20260928, "corpus", i)
		cfg := gen.DefaultCfg(r)
		cfg.Stmts = r.Range(2, 30)
		if i%5 == 0 {
			cfg.Pad = []int{250, 2300, 4100, 9000}[r.Intn(4)]
		}
		if i%7 == 0 {
			cfg.BlockHeavy = true
		}
		if i%3 == 0 {
			cfg.PrintHeavy = true
		}
		p := gen.Generate(r, cfg)
		name := []string{"f.bcl", "", "conf/prod.bcl", "-"}[i%4]
		var out, log bytes.Buffer
		prog, err := bcl.Parse(p.Src, name, bcl.OptOutput(&out), bcl.OptLogger(&log))
		if err != nil {
			continue
		}
		data, e1, e2 := sim.DumpProg(prog)
		if e1 != "" || e2 != "" {
			continue
		}
		ex := sim.Exec(prog, &out, &log, 0)
		if ex.Panic != "" {
			continue
		}
		fn := fmt.Sprintf("gen%03d.bcb", n)
		os.WriteFile(filepath.Join(outDir, strings.TrimSuffix(fn, ".bcb")+".bcl"), p.Src, 0o644)
		record(fn, "pinned-dump", fmt.Sprintf("generated program %d (%d bytes of source)", i, len(p.Src)), data, true, "pinned_dump")
		n++
	}
	// the repository's own test data
	for _, tf := range []string{"basic_test.bcl", "expr_test.bcl"} {
		src, err := os.ReadFile(filepath.Join(os.Args[2], "testdata", tf))
		if err != nil {
			continue
		}
		var out, log bytes.Buffer
		prog, err := bcl.Parse(src, tf, bcl.OptOutput(&out), bcl.OptLogger(&log))
		if err != nil {
			continue
		}
		data, _, _ := sim.DumpProg(prog)
		record("testdata_"+strings.TrimSuffix(tf, ".bcl")+".bcb", "pinned-dump", "testdata/"+tf, data, true, "pinned_dump")
	}

	// ---- B. hand-assembled from the documented layout
	const (
		NOP, RET, PRINT, SETLOCAL, GETLOCAL, DEFBLOCK, ENDBLOCK, SETFIELD, GETFIELD, CONST = bcfmt.OpNOP, bcfmt.OpRET, bcfmt.OpPRINT, bcfmt.OpSETLOCAL, bcfmt.OpGETLOCAL, bcfmt.OpDEFBLOCK, bcfmt.OpENDBLOCK, bcfmt.OpSETFIELD, bcfmt.OpGETFIELD, bcfmt.OpCONST
		NIL, ZERO, ONE, TRUE, FALSE, NOT, EQ, LT, GT, ADD, SUB, MUL, DIV, NEG, UNPLUS      = bcfmt.OpNIL, bcfmt.OpZERO, bcfmt.OpONE, bcfmt.OpTRUE, bcfmt.OpFALSE, bcfmt.OpNOT, bcfmt.OpEQ, bcfmt.OpLT, bcfmt.OpGT, bcfmt.OpADD, bcfmt.OpSUB, bcfmt.OpMUL, bcfmt.OpDIV, bcfmt.OpNEG, bcfmt.OpUNPLUS
		JUMP, LOOP, JFALSE, POP, POPN, BIND                                                = bcfmt.OpJUMP, bcfmt.OpLOOP, bcfmt.OpJFALSE, bcfmt.OpPOP, bcfmt.OpPOPN, bcfmt.OpBIND
	)
	{
		x := newFile("loop.bcl", "LOOP: counts a local up to 3 with a backward jump, NOPs in between")
		three := x.k(bcfmt.Int(3))
		a := &x.a
		a.At(5).Op(ZERO) // local 0 = 0
		top := a.Len()
		a.Op(NOP)
		a.At(9).Op(GETLOCAL, 0).Op(ONE).Op(ADD).Op(SETLOCAL, 0).Op(POP)
		a.Op(GETLOCAL, 0).Op(CONST, three).Op(LT)
		jf := a.Len()
		a.Op(JFALSE, 0)
		a.Op(POP)
		lp := a.Len()
		a.Op(LOOP, 0)
		a.PatchJump(lp, top)
		a.PatchJump(jf, a.Len())
		a.Op(POP).Op(NOP).Op(GETLOCAL, 0).Op(PRINT).Op(POP).Op(RET)
		x.f.Lfs = []uint64{7}
		record("hand_loop.bcb", "hand-assembled", x.desc, x.bytes(), true, "op_LOOP", "op_NOP")
	}
	{
		x := newFile("", "every constant kind through CONST: negative ints, bools, nil, floats incl. NaN, +-Inf, -0")
		a := &x.a
		vals := []bcfmt.Value{bcfmt.Int(-1), bcfmt.Int(-300), bcfmt.Int(math.MinInt64), bcfmt.Int(math.MaxInt64), bcfmt.Int(240), bcfmt.Int(241), bcfmt.Int(2287), bcfmt.Int(2288), bcfmt.Int(67823), bcfmt.Int(67824), bcfmt.Int(1 << 24), bcfmt.Int(1 << 32), bcfmt.Int(1 << 40), bcfmt.Int(1 << 48), bcfmt.Int(1 << 56),
			bcfmt.Bool(true), bcfmt.Bool(false), bcfmt.Value{Type: bcfmt.TBool, B: 7}, bcfmt.Nil(),
			bcfmt.Float(math.NaN()), bcfmt.Float(math.Inf(1)), bcfmt.Float(math.Inf(-1)), bcfmt.Float(math.Copysign(0, -1)), bcfmt.Float(1.5), bcfmt.Float(-2.25e-300), bcfmt.Float(math.SmallestNonzeroFloat64), bcfmt.Float(math.MaxFloat64),
			bcfmt.Str(""), bcfmt.Str("é→\x00\n"), bcfmt.Str(strings.Repeat("s", 241)), bcfmt.Str(strings.Repeat("t", 2288)), bcfmt.Str(strings.Repeat("u", 4000))}
		for i, v := range vals {
			a.At(uint64(i)).Op(CONST, x.k(v)).Op(PRINT)
		}
		a.Op(RET)
		record("hand_consts.bcb", "hand-assembled", x.desc, x.bytes(), true, "const_negative_int", "const_bool", "const_nil", "const_special_float", "string_241", "string_2288", "varint_9B")
	}
	{
		x := newFile("arith.bcl", "arithmetic, comparison and boolean opcodes on stored constants, incl. negative ints and mixed int/float")
		a := &x.a
		m7, f2, s := x.k(bcfmt.Int(-7)), x.k(bcfmt.Float(2.5)), x.k(bcfmt.Str("ab"))
		two := x.k(bcfmt.Int(2))
		bin := func(l, r uint64, op byte) { a.Op(CONST, l).Op(CONST, r).Op(op).Op(PRINT) }
		for _, op := range []byte{ADD, SUB, MUL, DIV, EQ, LT, GT} {
			bin(m7, two, op)
			bin(m7, f2, op)
			bin(f2, two, op)
		}
		bin(s, s, ADD)
		bin(s, two, ADD)
		bin(s, f2, ADD)
		bin(s, two, MUL)
		bin(s, s, LT)
		bin(s, s, EQ)
		bin(s, two, EQ)
		a.Op(CONST, m7).Op(NEG).Op(PRINT)
		a.Op(CONST, f2).Op(NEG).Op(PRINT)
		a.Op(CONST, m7).Op(UNPLUS).Op(PRINT)
		a.Op(CONST, m7).Op(NOT).Op(PRINT)
		a.Op(ZERO).Op(NOT).Op(PRINT)
		a.Op(NIL).Op(NOT).Op(PRINT)
		a.Op(TRUE).Op(PRINT).Op(FALSE).Op(PRINT).Op(ONE).Op(PRINT).Op(NIL).Op(PRINT)
		a.Op(CONST, s).Op(NIL).Op(ADD).Op(PRINT)
		a.Op(RET)
		record("hand_arith.bcb", "hand-assembled", x.desc, x.bytes(), true, "op_arith", "op_cmp", "op_NOT", "op_NEG", "op_UNPLUS")
	}
	{
		x := newFile("jumps.bcl", "JFALSE/JUMP forward: short-circuit 'or' and 'and' shapes with big-endian 16-bit operands")
		a := &x.a
		s1, s2 := x.k(bcfmt.Str("left")), x.k(bcfmt.Str("right"))
		// false or "right"
		a.Op(FALSE)
		mid := a.Len()
		a.Op(JFALSE, 0)
		end := a.Len()
		a.Op(JUMP, 0)
		a.PatchJump(mid, a.Len())
		a.Op(POP).Op(CONST, s2)
		a.PatchJump(end, a.Len())
		a.Op(PRINT)
		// "left" and "right"
		a.Op(CONST, s1)
		j := a.Len()
		a.Op(JFALSE, 0).Op(POP).Op(CONST, s2)
		a.PatchJump(j, a.Len())
		a.Op(PRINT)
		// 0 and "right"
		a.Op(ZERO)
		j = a.Len()
		a.Op(JFALSE, 0).Op(POP).Op(CONST, s2)
		a.PatchJump(j, a.Len())
		a.Op(PRINT).Op(RET)
		record("hand_jumps.bcb", "hand-assembled", x.desc, x.bytes(), true, "op_JUMP", "op_JFALSE")
	}
	{
		x := newFile("far.bcl", "a forward JUMP of 0xFFFF bytes over NOPs (largest 16-bit distance), then a print")
		a := &x.a
		s := x.k(bcfmt.Str("landed"))
		j := a.Len()
		a.Op(JUMP, 0)
		for i := 0; i < 0xFFFF; i++ {
			a.Op(NOP)
		}
		a.PatchJump(j, a.Len())
		a.Op(CONST, s).Op(PRINT).Op(RET)
		record("hand_farjump.bcb", "hand-assembled", x.desc, x.bytes(), true, "jump_0xFFFF", "code_size_3B_varint")
	}
	{
		x := newFile("blocks.bcl", "DEFBLOCK/ENDBLOCK/SETFIELD/GETFIELD with nested and named blocks, TYPE/NAME pseudo fields, locals inside blocks")
		a := &x.a
		tT, tN, empty := x.k(bcfmt.Str("tunnel")), x.k(bcfmt.Str("prod")), x.k(bcfmt.Str(""))
		fHost, fPort, fNeg := x.k(bcfmt.Str("host")), x.k(bcfmt.Str("port")), x.k(bcfmt.Str("neg"))
		tX, fT, fNm := x.k(bcfmt.Str("extras")), x.k(bcfmt.Str("TYPE")), x.k(bcfmt.Str("NAME"))
		v8400, vneg, fb := x.k(bcfmt.Int(8400)), x.k(bcfmt.Int(-5)), x.k(bcfmt.Bool(true))
		fEn := x.k(bcfmt.Str("enabled"))
		a.Op(CONST, v8400) // local 0
		a.Op(DEFBLOCK, tT, tN)
		a.Op(GETFIELD, fT).Op(SETFIELD, fHost).Op(POP)
		a.Op(GETLOCAL, 0).Op(ONE).Op(ADD).Op(SETFIELD, fPort).Op(POP)
		a.Op(CONST, vneg).Op(SETFIELD, fNeg).Op(POP)
		a.Op(CONST, fb).Op(SETFIELD, fEn).Op(POP)
		a.Op(DEFBLOCK, tX, empty)
		a.Op(GETFIELD, fPort).Op(SETFIELD, fPort).Op(POP)
		a.Op(GETFIELD, fNm).Op(SETFIELD, fHost).Op(POP)
		a.Op(ENDBLOCK)
		a.Op(ENDBLOCK)
		a.Op(DEFBLOCK, tT, empty).Op(ENDBLOCK)
		a.Op(BIND, tT, bcfmt.BindSlice|bcfmt.BindAll)
		a.Op(POP).Op(RET)
		record("hand_blocks.bcb", "hand-assembled", x.desc, x.bytes(), true, "op_block", "op_field", "bind_all_slice")
	}
	// every bind selector x target nibble, valid and invalid
	for _, tgt := range []uint64{0x00, bcfmt.BindStruct, bcfmt.BindSlice, 0x30} {
		for _, sel := range []uint64{0, bcfmt.BindOne, bcfmt.BindFirst, bcfmt.BindLast, 4, bcfmt.BindAll} {
			for _, nblocks := range []int{1, 2} {
				x := newFile("bind.bcl", fmt.Sprintf("BIND byte 0x%02X (target nibble 0x%X, selector nibble %d) with %d candidate block(s)", tgt|sel, tgt>>4, sel, nblocks))
				a := &x.a
				tT, empty, f := x.k(bcfmt.Str("t")), x.k(bcfmt.Str("")), x.k(bcfmt.Str("f"))
				other := x.k(bcfmt.Str("other"))
				for i := 0; i < nblocks; i++ {
					a.Op(DEFBLOCK, tT, empty).Op(CONST, x.k(bcfmt.Int(int64(10+i)))).Op(SETFIELD, f).Op(POP).Op(ENDBLOCK)
					a.Op(DEFBLOCK, other, empty).Op(ENDBLOCK)
				}
				a.At(33).Op(BIND, tT, tgt|sel).Op(RET)
				record(fmt.Sprintf("hand_bind_%02x_%d.bcb", tgt|sel, nblocks), "hand-assembled", x.desc, x.bytes(), true, "bind_nibbles")
			}
		}
	}
	{
		x := newFile("rebind.bcl", "two BIND instructions: the second warns and overrides; positions and line table give the warning its line:column")
		a := &x.a
		tT, empty := x.k(bcfmt.Str("t")), x.k(bcfmt.Str(""))
		a.At(3).Op(DEFBLOCK, tT, empty).Op(ENDBLOCK)
		a.At(20).Op(BIND, tT, bcfmt.BindStruct|bcfmt.BindOne)
		a.At(300).Op(BIND, tT, bcfmt.BindSlice|bcfmt.BindFirst)
		a.At(2500).Op(RET)
		x.f.Lfs = []uint64{10, 250, 260, 2400}
		record("hand_rebind.bcb", "hand-assembled", x.desc, x.bytes(), true, "warning_position", "position_2B_varint", "position_3B_varint")
	}
	{
		x := newFile("rt.bcl", "runtime error positions from stored positions/line table: division by int zero at offset 70000 on line 3")
		a := &x.a
		a.At(10).Op(ONE)
		a.At(70000).Op(ZERO).Op(DIV).Op(PRINT).Op(RET)
		x.f.Lfs = []uint64{100, 69000}
		record("hand_rterr.bcb", "hand-assembled", x.desc, x.bytes(), true, "runtime_error_position", "position_4B_varint")
	}
	{
		x := newFile("many.bcl", "300 locals (slot index and POPN count need 2-byte varints) and 2400 constants (3-byte index)")
		a := &x.a
		for i := 0; i < 300; i++ {
			a.Op(CONST, x.k(bcfmt.Int(int64(i)*3)))
		}
		for i := 300; i < 2400; i++ {
			x.k(bcfmt.Int(int64(-i)))
		}
		a.Op(GETLOCAL, 299).Op(PRINT)
		a.Op(GETLOCAL, 241).Op(PRINT)
		a.Op(CONST, 2399).Op(SETLOCAL, 250).Op(POP).Op(GETLOCAL, 250).Op(PRINT)
		a.Op(CONST, 2288).Op(PRINT).Op(CONST, 241).Op(PRINT)
		a.Op(POPN, 300).Op(RET)
		record("hand_many.bcb", "hand-assembled", x.desc, x.bytes(), true, "varint_2B_operand", "varint_3B_operand", "op_POPN", "op_local")
	}
	{
		x := newFile("old.bcl", "minor version 0 file (format 1.0: no BIND): must still load")
		x.f.Minor = 0
		a := &x.a
		a.Op(CONST, x.k(bcfmt.Str("from 1.0"))).Op(PRINT).Op(RET)
		record("hand_minor0.bcb", "hand-assembled", x.desc, x.bytes(), false, "minor_version_0")
	}
	{
		x := newFile(strings.Repeat("N", 3000), "program name of 3000 bytes (3-byte varint length)")
		a := &x.a
		a.Op(ONE).Op(PRINT).Op(RET)
		record("hand_longname.bcb", "hand-assembled", x.desc, x.bytes(), true, "name_3000")
	}
	{
		x := newFile("errs.bcl", "runtime errors from stored programs: unknown field, bad operand types, duplicate child, no block for bind")
		a := &x.a
		tT, empty, nf := x.k(bcfmt.Str("t")), x.k(bcfmt.Str("")), x.k(bcfmt.Str("nofield"))
		a.At(4).Op(DEFBLOCK, tT, empty)
		a.At(9).Op(GETFIELD, nf).Op(POP).Op(ENDBLOCK).Op(RET)
		record("hand_err_field.bcb", "hand-assembled", x.desc+" [unknown field]", x.bytes(), true, "runtime_error")
		y := newFile("errs.bcl", "ADD of int and string is a runtime error")
		y.a.At(2).Op(ONE).Op(CONST, y.k(bcfmt.Str("s"))).Op(ADD).Op(PRINT).Op(RET)
		record("hand_err_types.bcb", "hand-assembled", y.desc, y.bytes(), true, "runtime_error")
		z := newFile("errs.bcl", "two children with one key: duplicate at parent")
		c := z.k(bcfmt.Str("c"))
		o := z.k(bcfmt.Str("outer"))
		e := z.k(bcfmt.Str(""))
		z.a.At(1).Op(DEFBLOCK, o, e).Op(DEFBLOCK, c, e).Op(ENDBLOCK).Op(DEFBLOCK, c, e).At(44).Op(ENDBLOCK).Op(ENDBLOCK).Op(RET)
		record("hand_err_dupchild.bcb", "hand-assembled", z.desc, z.bytes(), true, "runtime_error")
	}
	// ---- C. added later (appended, so that the files above keep their names and bytes):
	// jumps whose 16-bit operand has its top bit set, over code that would be visible if executed
	{
		x := newFile("farfx.bcl", "JUMP of 0x9000 bytes over ONE PRINT pairs: nothing of the skipped code may run")
		a := &x.a
		s := x.k(bcfmt.Str("landed"))
		j := a.Len()
		a.Op(JUMP, 0)
		for i := 0; i < 0x9000/2; i++ {
			a.Op(ONE).Op(PRINT)
		}
		a.PatchJump(j, a.Len())
		a.Op(CONST, s).Op(PRINT).Op(RET)
		record("hand_farjump_effect.bcb", "hand-assembled", x.desc, x.bytes(), true, "jump_0x9000_over_code")
	}
	{
		x := newFile("farjf.bcl", "JFALSE of 0x8001 bytes taken on a falsey value, then one not taken on a truthy value")
		a := &x.a
		s := x.k(bcfmt.Str("after"))
		a.Op(FALSE)
		j := a.Len()
		a.Op(JFALSE, 0)
		a.Op(POP)
		for i := 0; i < 0x8000/2; i++ {
			a.Op(ONE).Op(PRINT)
		}
		a.Op(NIL)
		a.PatchJump(j, a.Len())
		a.Op(PRINT) // prints false (jump taken: the value stays)
		a.Op(TRUE)
		j = a.Len()
		a.Op(JFALSE, 0).Op(POP).Op(CONST, s)
		a.PatchJump(j, a.Len())
		a.Op(PRINT).Op(RET)
		record("hand_farjfalse.bcb", "hand-assembled", x.desc, x.bytes(), true, "jfalse_0x8001")
	}
	{
		x := newFile("latebind.bcl", "BIND whose block-type constant has index 300 (a two-byte uvarint operand), DEFBLOCK and SETFIELD with such indices too")
		a := &x.a
		for i := 0; i < 300; i++ {
			x.k(bcfmt.Int(int64(5000 + i)))
		}
		tT, empty, f := x.k(bcfmt.Str("late")), x.k(bcfmt.Str("")), x.k(bcfmt.Str("field"))
		a.Op(DEFBLOCK, tT, empty).Op(CONST, 299).Op(SETFIELD, f).Op(POP).Op(ENDBLOCK)
		a.Op(BIND, tT, bcfmt.BindStruct|bcfmt.BindOne).Op(RET)
		record("hand_latebind.bcb", "hand-assembled", x.desc, x.bytes(), true, "bind_2B_operand")
	}
	{
		x := newFile("operandpos.bcl", "operand bytes that carry source positions of their own: a failing instruction reports the position stored for the last byte it has read")
		a := &x.a
		tT, empty, nosuch := x.k(bcfmt.Str("t")), x.k(bcfmt.Str("")), x.k(bcfmt.Str("nosuch"))
		a.At(3).Op(DEFBLOCK, tT, empty)
		a.At(14).Op(GETFIELD, nosuch)
		a.Pos[len(a.Pos)-1] = 18 // the operand byte: line 2, column 8; the opcode byte: line 2, column 4
		a.At(20).Op(POP).Op(ENDBLOCK).Op(RET)
		x.f.Lfs = []uint64{10, 30}
		record("hand_operandpos.bcb", "hand-assembled", x.desc, x.bytes(), true, "operand_positions")
	}
	{
		x := newFile("nopos.bcl", "a file whose positions and line tables are empty (their counts are independent of the code length)")
		a := &x.a
		a.Op(CONST, x.k(bcfmt.Str("no positions"))).Op(PRINT).Op(ONE).Op(PRINT).Op(RET)
		x.f.Code = a.Code
		data := x.f.Encode() // positions left empty on purpose
		record("hand_nopositions.bcb", "hand-assembled", x.desc, data, true, "positions_count_independent")
	}
	{
		x := newFile("halfpos.bcl", "fewer positions than code bytes, more line-table entries than lines of any source")
		a := &x.a
		a.Op(CONST, x.k(bcfmt.Str("half"))).Op(PRINT).Op(RET)
		x.f.Code = a.Code
		x.f.Positions = []uint64{1, 1}
		x.f.Lfs = []uint64{0, 1, 2, 3, 300, 70000}
		record("hand_halfpositions.bcb", "hand-assembled", x.desc, x.f.Encode(), true, "positions_count_independent")
	}
	for _, src := range []struct{ file, text string }{
		{"big_and.bcb", "print false and 1" + strings.Repeat("+1", 17000) + "\nprint 1 and 2" + strings.Repeat("+1", 16500) + "\n"},
		{"big_or.bcb", "print 7 or 1" + strings.Repeat("+1", 17000) + "\nprint 0 or 2" + strings.Repeat("+1", 16400) + "\n"},
	} {
		var out, log bytes.Buffer
		prog, err := bcl.Parse([]byte(src.text), "big.bcl", bcl.OptOutput(&out), bcl.OptLogger(&log))
		if err != nil {
			fmt.Println("SKIP", src.file, err)
			continue
		}
		data, _, _ := sim.DumpProg(prog)
		record(src.file, "pinned-dump", "short-circuit over a right operand of more than 32768 code bytes (jump operand with the top bit set)", data, true, "pinned_dump", "compiled_jump_over_0x8000")
	}
	b, _ := json.MarshalIndent(index, "", " ")
	os.WriteFile(filepath.Join(outDir, "index.json"), b, 0o644)
	fmt.Printf("%d corpus files written to %s\n", len(index), outDir)
}
