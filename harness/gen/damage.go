package gen

import (
	"fmt"
	"strings"

	"verifharness/prng"
)

// Vocabulary of valid tokens used when a token is replaced or inserted.
var Vocab = []string{"var", "def", "eval", "print", "bind", "true", "false", "nil", "not", "and", "or",
	"=", "{", "}", "(", ")", "<", ">", "+", "-", "*", "/", ":", ";", "==", "!=", "<=", ">=", "->",
	"x", "f1", "struct", "slice", "first", "all", "0", "1", "42", "0x1F", "017", "1.5", "1e3", `"s"`, `""`, `"a\nb"`}

// Lexical failure spellings: each, surrounded by blanks, makes the lexer emit a
// failure whatever follows it (the unterminated string carries its own line
// end: an open quote alone can be closed by a later quote on the same line and
// the rest swallowed by a '#' comment).
var LexFails = []string{"@", "$", "`", "\"unterminated\n", "12.", "42q", "0x1.", "\"foo\"1", "!", "1e", "1e+", "1.5x", "\u2192", "\U0001F600", "é", "0xZ", "x\"q\"", "\\", "[", "~", "\x00", "\xff", "1.e3", "\U0001F600\U0001F600", "\u65e5\u672c"}

// Damage applies one seeded fault to the rendered source of p and returns the
// damaged bytes and the fault kind that fired.
func Damage(r *prng.R, p *Prog) ([]byte, string) {
	src := p.Src
	if len(src) == 0 {
		return []byte("@"), "insert_byte"
	}
	nt := len(p.Toks)
	if r.Chance(1, 12) {
		// a character from beyond Latin-1 where a token may start, end or continue: letters and
		// digits of other scripts, characters whose low byte is an ASCII digit, letter, blank or
		// operator, characters outside the BMP, the replacement character, a non-character
		i := r.Intn(len(src) + 1)
		if nt > 0 && r.Chance(2, 3) {
			t := p.Toks[r.Intn(nt)]
			i = prng.Pick(r, []int{t.Start, t.End})
		}
		base := prng.Pick(r, []rune{0x100, 0x400, 0x600, 0x900, 0x2000, 0x3000, 0xFF00, 0x10000, 0x1D700, 0xE0000})
		c := base + rune(r.Intn(256))
		if r.Chance(1, 8) {
			c = prng.Pick(r, []rune{0x0131, 0x0660, 0x0966, 0xFF10, 0x1D7CE, 0x2028, 0x2029, 0x200B, 0xFEFF, 0xFFFD, 0xFFFE, 0x10FFFF})
		}
		out := append(append(append([]byte(nil), src[:i]...), string(c)...), src[i:]...)
		return out, "insert_rune"
	}
	switch k := r.Weighted(3, 3, 3, 6, 2, 2, 3); {
	case k == 0:
		i := r.Intn(len(src))
		out := append([]byte(nil), src...)
		out[i] ^= byte(1 << uint(r.Intn(8)))
		return out, "flip_byte"
	case k == 1:
		i := r.Intn(len(src))
		out := append(append([]byte(nil), src[:i]...), src[i+1:]...)
		return out, "drop_byte"
	case k == 2:
		i := r.Intn(len(src) + 1)
		b := byte(r.Intn(256))
		if r.Chance(1, 2) {
			const a = "@\"\\.=-!<>(){}#;:0x e\n"
			b = a[r.Intn(len(a))]
		}
		out := append(append(append([]byte(nil), src[:i]...), b), src[i:]...)
		return out, "insert_byte"
	case k == 3 && nt > 0:
		return TokenDamage(r, p, r.Intn(nt)), "token_damage"
	case k == 4:
		i := r.Intn(len(src))
		return append([]byte(nil), src[:i]...), "truncate_source"
	case k == 5 && nt > 0:
		// truncate at a token boundary or inside a token
		t := p.Toks[r.Intn(nt)]
		cut := t.End
		if t.End-t.Start > 1 && r.Chance(1, 2) {
			cut = t.Start + r.Range(1, t.End-t.Start-1)
		}
		return append([]byte(nil), src[:cut]...), "truncate_source"
	default:
		i := 0
		if nt > 0 {
			i = p.Toks[r.Intn(nt)].Start
		}
		lf := prng.Pick(r, LexFails)
		out := append(append(append([]byte(nil), src[:i]...), (lf+" ")...), src[i:]...)
		return out, "token_damage"
	}
}

// TokenDamage deletes, duplicates, replaces or transposes the token at i.
func TokenDamage(r *prng.R, p *Prog, i int) []byte {
	src := p.Src
	t := p.Toks[i]
	cat := func(parts ...string) []byte { return []byte(strings.Join(parts, "")) }
	switch r.Intn(5) {
	case 0: // delete
		return cat(string(src[:t.Start]), string(src[t.End:]))
	case 1: // duplicate
		return cat(string(src[:t.End]), " ", t.Text, string(src[t.End:]))
	case 2: // replace
		return cat(string(src[:t.Start]), prng.Pick(r, Vocab), string(src[t.End:]))
	case 3: // insert before
		return cat(string(src[:t.Start]), prng.Pick(r, Vocab), " ", string(src[t.Start:]))
	default: // transpose with next
		if i+1 >= len(p.Toks) {
			return cat(string(src[:t.Start]), string(src[t.End:]))
		}
		u := p.Toks[i+1]
		return cat(string(src[:t.Start]), u.Text, string(src[t.End:u.Start]), t.Text, string(src[u.End:]))
	}
}

// WithLexFail inserts a lexical failure near the start (early) or in the last
// third of the token list and returns the bytes and the offset of the first
// byte of the inserted failure.
func WithLexFail(r *prng.R, p *Prog, early bool) ([]byte, int) {
	nt := len(p.Toks)
	at := len(p.Src)
	if nt > 0 {
		var i int
		if early {
			i = r.Intn(min(nt, 3))
		} else {
			i = nt - 1 - r.Intn(max(nt/3, 1))
		}
		at = p.Toks[i].Start
	}
	lf := prng.Pick(r, LexFails[:15])
	// surrounded by blanks so that it cannot merge with a neighbouring token
	out := append(append(append([]byte(nil), p.Src[:at]...), (" "+lf+" ")...), p.Src[at:]...)
	return out, at + 1
}

// WithSyntaxErr damages one token near the start or near the end so that a
// syntax (not lexical) error is likely.
func WithSyntaxErr(r *prng.R, p *Prog, early bool) []byte {
	nt := len(p.Toks)
	if nt == 0 {
		return []byte(") print 1\n")
	}
	var i int
	if early {
		i = r.Intn(min(nt, 4))
	} else {
		i = nt - 1 - r.Intn(max(nt/4, 1))
	}
	t := p.Toks[i]
	bad := prng.Pick(r, []string{")", "}", "= =", "print", "var", "-> ->", ": :", "* /", "( )", "{"})
	return []byte(string(p.Src[:t.Start]) + bad + " " + string(p.Src[t.Start:]))
}

// ManySyntaxErrors renders n lines, most of which carry a syntax error, so
// that a parser keeps reporting diagnostics while the lexer runs ahead.
func ManySyntaxErrors(r *prng.R, lines int) []byte {
	var sb strings.Builder
	forms := []string{"print 1 +\n", "var = 3\n", "print )\n", "eval 1 = 2\n", "print nosuch%d\n", "def { }\n", "print 1 2 3 )\n",
		"var v%d = 1\n", "print \"ok\"\n", "bind -> struct\n", "print (1\n", "eval * 2\n", "# only a comment %d\n", "\n"}
	for i := 0; i < lines; i++ {
		f := prng.Pick(r, forms)
		if strings.Contains(f, "%d") {
			f = fmt.Sprintf(f, i)
		}
		sb.WriteString(f)
	}
	return []byte(sb.String())
}

// TokenSoup is an arbitrary sequence of valid tokens.
func TokenSoup(r *prng.R, n int) []byte {
	var sb strings.Builder
	prev := ""
	for i := 0; i < n; i++ {
		t := prng.Pick(r, Vocab)
		if NeedSep(prev, t) || r.Chance(2, 3) {
			sb.WriteString(prng.Pick(r, []string{" ", "\n", "\t"}))
		}
		sb.WriteString(t)
		prev = t
	}
	return []byte(sb.String())
}

// RawBytes is n arbitrary bytes, biased towards the characters the lexer
// dispatches on.
func RawBytes(r *prng.R, n int) []byte {
	const alphabet = " \n\t\"\\#=!<>-+*/(){}:;0123456789abcxyzEe._@\r\xc2\xa0\x85\xe2"
	out := make([]byte, n)
	for i := range out {
		if r.Chance(2, 3) {
			out[i] = alphabet[r.Intn(len(alphabet))]
		} else {
			out[i] = byte(r.Intn(256))
		}
	}
	return out
}
