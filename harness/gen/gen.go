// Package gen is the workload generator: a grammar-directed generator of BCL
// token sequences that knows the token vocabulary and the statement forms and
// records the byte offset at which every token ends. It knows nothing about
// evaluation beyond a loose static type for each name, used only to keep most
// programs running to the end; whether a source is accepted, rejected or
// fails at run time is never predicted from here (oracles are differential or
// computed from the bytes).
package gen

import (
	"fmt"
	"strings"

	"verifharness/prng"
)

type Kind int

const (
	KIdent Kind = iota
	KKw
	KInt
	KFloat
	KStr
	KPunct
)

type Tok struct {
	Text       string
	Kind       Kind
	Stmt       int // toplevel statement index
	Start, End int // byte offsets in Src (set by Render)
}

// Plant is a statement planted so that a diagnostic with a known position
// results.
type Plant struct {
	Kind      string // e.g. "rt.divzero", "ct.strayparen", "warn.rebind"
	Tok       int    // index of the token whose End is the expected offset (-1: end of input)
	Match     string // substring the message must contain for the plant to be considered hit
	StmtFirst int    // token range of the planted statement
	StmtLast  int
	Runtime   bool
	Warning   bool
}

type Prog struct {
	Toks      []Tok
	Seps      []string // Seps[i] precedes Toks[i]; Seps[len(Toks)] trails
	Src       []byte
	NStmts    int
	Plants    []Plant
	StmtFirst []int // first token of each toplevel statement
	BindTypes []string
}

type typ int

const (
	tAny typ = iota
	tInt
	tFloat
	tStr
	tBool
	tNil
)

type Cfg struct {
	Stmts      int  // toplevel statements
	MaxDepth   int  // block nesting
	ExprDepth  int  // expression nesting
	Safe       bool // never generate anything that can fail at run time
	NoBind     bool
	Exotic     int  // 0..100: how often separators are exotic (comments, CR, VT, U+0085...)
	LongTail   bool // allow very long identifiers/strings (size classes)
	Pad        int  // leading pad bytes (comment + whitespace)
	PrintHeavy bool // mostly print statements (output-rich)
	NoMB       bool // no multi-byte separators
	Tight      int  // 0..100 probability of omitting optional separators
	BlockHeavy bool
	LongSizes  []int // candidate sizes for long strings/idents when LongTail
	NoNL       bool  // string literals never denote a line break (line-oriented output oracles)
	SmallInts  bool  // integer literals stay below 2^16 (so that no product with a string can be huge)
	OneLine    bool  // no line feed anywhere in the source (blanks and ';' only): an empty line table
}

func DefaultCfg(r *prng.R) Cfg {
	c := Cfg{
		Stmts:     r.Range(1, 25),
		MaxDepth:  r.Range(0, 4),
		ExprDepth: r.Range(0, 4),
		Exotic:    []int{0, 0, 5, 20, 60}[r.Intn(5)],
		Tight:     []int{0, 10, 50}[r.Intn(3)],
	}
	c.OneLine = r.Chance(1, 25)
	return c
}

type scopeVar struct {
	name string
	t    typ
}

type blockScope struct {
	fields   []scopeVar
	nvars    int      // vars declared in this scope (index into g.vars at entry)
	children []string // keys of the unnamed child blocks closed so far (readable as values)
}

type g struct {
	r         *prng.R
	cfg       Cfg
	toks      []Tok
	stmt      int
	vars      []scopeVar
	blocks    []blockScope
	depth     int
	types     []string // block types defined at toplevel so far
	nameN     int
	plants    []Plant
	stmtFirst []int
	nlocals   int
}

var kwSet = map[string]bool{"var": true, "def": true, "eval": true, "print": true, "bind": true,
	"true": true, "false": true, "nil": true, "not": true, "and": true, "or": true}

func (g *g) tok(text string, k Kind) int {
	g.toks = append(g.toks, Tok{Text: text, Kind: k, Stmt: g.stmt})
	return len(g.toks) - 1
}
func (g *g) kw(s string)    { g.tok(s, KKw) }
func (g *g) punct(s string) { g.tok(s, KPunct) }

var varPool = []string{"v", "x", "y", "zz", "port", "host_name", "a1", "b_2", "cfg", "v_", "_t", "i", "base", "k9"}
var fieldPool = []string{"f", "name_", "field", "local_port", "enabled", "max_latency", "ff", "g", "h_1", "opt", "level", "remote"}
var typePool = []string{"tunnel", "server", "extras", "t1", "blk", "point", "db", "a_b"}

func (g *g) freshVar() string {
	g.nameN++
	base := prng.Pick(g.r, varPool)
	if g.cfg.LongTail && g.r.Chance(1, 12) {
		return "v" + g.longIdent()
	}
	return fmt.Sprintf("%s%d", base, g.nameN)
}

func (g *g) longIdent() string {
	n := g.longSize()
	var sb strings.Builder
	for sb.Len() < n {
		const a = "abcdefghijklmnopqrstuvwxyz_0123456789ABCXYZ"
		sb.WriteByte(a[g.r.Intn(len(a))])
	}
	return sb.String()
}

func (g *g) longSize() int {
	sizes := g.cfg.LongSizes
	if len(sizes) == 0 {
		sizes = []int{94, 95, 96, 97, 239, 240, 241, 242, 300, 1000, 2286, 2287, 2288, 2289, 4093, 4094, 4095, 4096, 4097, 4100, 5000}
	}
	return prng.Pick(g.r, sizes)
}

func (g *g) fieldName() string {
	if g.cfg.LongTail && g.r.Chance(1, 15) {
		return "f" + g.longIdent()
	}
	base := prng.Pick(g.r, fieldPool)
	if g.r.Chance(1, 2) {
		return base
	}
	return fmt.Sprintf("%s%d", base, g.r.Intn(6))
}

// ---- literals

func (g *g) intLit() string {
	w := []int{30, 8, 8, 10, 6, 6, 3, 2}
	if g.cfg.SmallInts {
		w = []int{30, 8, 8, 0, 0, 6, 0, 0}
	}
	switch g.r.Weighted(w...) {
	case 0:
		return fmt.Sprint(g.r.Range(2, 99))
	case 1:
		return "0"
	case 2:
		return "1"
	case 3:
		return fmt.Sprint(g.r.Range(100, 100000))
	case 4:
		if g.r.Chance(1, 2) {
			return fmt.Sprintf("0x%X", g.r.Range(0, 70000))
		}
		return fmt.Sprintf("0X%x", g.r.Range(0, 300))
	case 5:
		return fmt.Sprintf("0%o", g.r.Range(1, 4000))
	case 6:
		if g.r.Chance(1, 2) {
			// on and next to the edges of the size classes of the stored encoding (sqlite4 varint:
			// 240/241, 2287/2288, 67823/67824, then one more payload byte at every power of 256)
			// and of the machine words
			edges := []uint64{240, 2287, 67823, 1 << 16, 1 << 24, 1 << 31, 1 << 32, 1 << 40, 1 << 48, 1 << 56, 1 << 62}
			return fmt.Sprint(edges[g.r.Intn(len(edges))] + uint64(g.r.Intn(3)) - 1)
		}
		return fmt.Sprint(uint64(g.r.U64() >> uint(g.r.Range(1, 40))))
	default:
		return "9223372036854775807"
	}
}

var floatLits = []string{"1.5", "0.25", "1e3", "1E-2", "2.5e+10", "1.0", "0.0", "4.9e-324", "1.7976931348623157e308",
	"3.14159", "0.1", "100.001", "5e0", "2.2250738585072014e-308", "0.000001", "123456789.125", "1e-7", "9.99E+2", "00.5", "0e0"}

func (g *g) floatLit() string {
	if g.r.Chance(1, 4) {
		return fmt.Sprintf("%d.%d", g.r.Intn(1000), g.r.Intn(1000))
	}
	if g.r.Chance(1, 8) {
		return fmt.Sprintf("%d.%de%d", g.r.Intn(10), g.r.Intn(100000), g.r.Range(-20, 20))
	}
	return prng.Pick(g.r, floatLits)
}

var strPieces = []string{"a", "b", "prod", "acme.com", " ", "x y", "#nocomment", ";", "(", ")", "{}", "=", "é", "→", "日本", " ", "\u0085",
	`\n`, `\t`, `\\`, `\"`, `\x41`, `é`, `\101`, `\r`, `\a`, `\xff`, `\xe2\x82`, `\xc0\x80`, `\x00`, `\U0001F600`, "\U0001F600", "\U00010348x", "-", "0", "42", "var", "def", "'", "/", "%d", "<=", "->"}

func (g *g) strLit() string {
	if g.r.Chance(1, 12) && len(g.toks) > 0 {
		// a string that spells an earlier literal or identifier: constants of different kinds with one text
		for tries := 0; tries < 4; tries++ {
			t := g.toks[g.r.Intn(len(g.toks))]
			if t.Kind == KInt || t.Kind == KFloat || t.Kind == KIdent || t.Kind == KKw {
				return `"` + t.Text + `"`
			}
		}
	}
	var sb strings.Builder
	sb.WriteByte('"')
	if g.cfg.LongTail && g.r.Chance(1, 6) {
		n := g.longSize()
		for sb.Len()-1 < n {
			const a = "abcdefghij klmnop#;(){}=+-*/<>:qrstuvwxyz0123456789"
			sb.WriteByte(a[g.r.Intn(len(a))])
		}
		s := sb.String()[:n+1]
		return s + `"`
	}
	n := g.r.Weighted(2, 6, 5, 3, 2)
	for i := 0; i < n; i++ {
		pc := prng.Pick(g.r, strPieces)
		if g.cfg.NoNL && (pc == `\n` || pc == `\r`) {
			pc = "_"
		}
		sb.WriteString(pc)
	}
	sb.WriteByte('"')
	return sb.String()
}

// ---- expressions

func (g *g) varsOf(t typ) []string {
	var out []string
	for _, v := range g.vars {
		if v.t == t || t == tAny {
			out = append(out, v.name)
		}
	}
	return out
}

func (g *g) fieldsOf(t typ) []string {
	var out []string
	seen := map[string]bool{}
	for i := len(g.blocks) - 1; i >= 0; i-- {
		for j := len(g.blocks[i].fields) - 1; j >= 0; j-- {
			f := g.blocks[i].fields[j]
			if seen[f.name] {
				continue
			}
			seen[f.name] = true
			if f.t == t || t == tAny {
				// a local of the same name would take precedence: skip
				shadow := false
				for _, v := range g.vars {
					if v.name == f.name {
						shadow = true
					}
				}
				if !shadow {
					out = append(out, f.name)
				}
			}
		}
	}
	return out
}

func (g *g) atom(t typ) {
	// variable or field of the right type?
	if g.r.Chance(2, 5) {
		if vs := g.varsOf(t); len(vs) > 0 && g.r.Chance(3, 4) {
			g.tok(prng.Pick(g.r, vs), KIdent)
			return
		}
		if fs := g.fieldsOf(t); len(fs) > 0 {
			g.tok(prng.Pick(g.r, fs), KIdent)
			return
		}
	}
	switch t {
	case tInt:
		g.tok(g.intLit(), KInt)
	case tFloat:
		g.tok(g.floatLit(), KFloat)
	case tStr:
		if len(g.blocks) > 0 && g.r.Chance(1, 12) {
			g.tok(prng.Pick(g.r, []string{"TYPE", "NAME"}), KIdent)
			return
		}
		g.tok(g.strLit(), KStr)
	case tBool:
		g.kw(prng.Pick(g.r, []string{"true", "false"}))
	case tNil:
		g.kw("nil")
	default:
		// a closed child block can be read like a field: its value is the block itself
		if !g.cfg.Safe && len(g.blocks) > 0 && g.r.Chance(1, 3) {
			if ch := g.blocks[len(g.blocks)-1].children; len(ch) > 0 {
				g.tok(prng.Pick(g.r, ch), KIdent)
				return
			}
		}
		g.atom(typ(g.r.Range(1, 5)))
	}
}

func (g *g) nonzeroIntLit() string {
	for {
		s := g.intLit()
		if s != "0" && s != "0x0" && s != "0X0" {
			return s
		}
	}
}

func (g *g) parenMaybe(f func()) {
	if g.r.Chance(1, 6) {
		g.punct("(")
		f()
		g.punct(")")
	} else {
		f()
	}
}

// expr generates an expression of static type t. prec-correctness is kept by
// parenthesising every compound operand of a tighter operator.
func (g *g) expr(t typ, d int) {
	if d <= 0 || g.r.Chance(1, 3) {
		g.atom(t)
		return
	}
	sub := func(t typ) {
		// operand: atom, or parenthesised compound
		if g.r.Chance(1, 2) {
			g.atom(t)
		} else {
			g.punct("(")
			g.expr(t, d-1)
			g.punct(")")
		}
	}
	switch t {
	case tInt:
		switch g.r.Weighted(4, 3, 3, 2, 2, 1, 2) {
		case 0:
			sub(tInt)
			g.punct("+")
			sub(tInt)
		case 1:
			sub(tInt)
			g.punct("-")
			sub(tInt)
		case 2:
			sub(tInt)
			g.punct("*")
			sub(tInt)
		case 3:
			sub(tInt)
			g.punct("/")
			g.tok(g.nonzeroIntLit(), KInt)
		case 4:
			g.punct("-")
			sub(tInt)
		case 5:
			g.punct("+")
			sub(tInt)
		default:
			// unparenthesised chain using real precedence
			g.atom(tInt)
			for i := g.r.Range(1, 3); i > 0; i-- {
				g.punct(prng.Pick(g.r, []string{"+", "-", "*"}))
				g.atom(tInt)
			}
		}
	case tFloat:
		op := prng.Pick(g.r, []string{"+", "-", "*", "/"})
		switch g.r.Intn(4) {
		case 0:
			sub(tFloat)
			g.punct(op)
			sub(tFloat)
		case 1:
			sub(tFloat)
			g.punct(op)
			if op == "/" {
				g.tok(g.nonzeroIntLit(), KInt)
			} else {
				sub(tInt)
			}
		case 2:
			sub(tInt)
			g.punct(op)
			sub(tFloat)
		default:
			g.punct("-")
			sub(tFloat)
		}
	case tStr:
		switch g.r.Weighted(4, 2, 1, 1, 2) {
		case 0:
			sub(tStr)
			g.punct("+")
			sub(tStr)
		case 1:
			sub(tStr)
			g.punct("+")
			sub(tInt)
		case 2:
			sub(tStr)
			g.punct("+")
			sub(tFloat)
		case 3:
			sub(tStr)
			g.punct("+")
			g.kw("nil")
		default:
			sub(tStr)
			g.punct("*")
			g.tok(fmt.Sprint(g.r.Range(0, 3)), KInt)
		}
	case tBool:
		switch g.r.Weighted(3, 3, 2, 2, 1) {
		case 0:
			if !g.cfg.Safe && len(g.blocks) > 0 && len(g.blocks[len(g.blocks)-1].children) > 0 && g.r.Chance(1, 3) {
				// comparing block values (closed children read as fields) with each other and with scalars
				ch := g.blocks[len(g.blocks)-1].children
				g.tok(prng.Pick(g.r, ch), KIdent)
				g.punct(prng.Pick(g.r, []string{"==", "!="}))
				if g.r.Chance(2, 3) {
					g.tok(prng.Pick(g.r, ch), KIdent)
				} else {
					g.atom(g.anyType())
				}
				return
			}
			tt := typ(g.r.Range(0, 5))
			sub(tt)
			g.punct(prng.Pick(g.r, []string{"==", "!="}))
			sub(typ(g.r.Range(0, 5)))
		case 1:
			tt := prng.Pick(g.r, []typ{tInt, tFloat})
			sub(tt)
			g.punct(prng.Pick(g.r, []string{"<", ">", "<=", ">="}))
			sub(prng.Pick(g.r, []typ{tInt, tFloat}))
		case 2:
			sub(tStr)
			g.punct(prng.Pick(g.r, []string{"<", ">", "<=", ">="}))
			sub(tStr)
		case 3:
			g.kw("not")
			sub(tAny)
		default:
			g.atom(tBool)
		}
	case tNil:
		g.kw("nil")
	default:
		switch g.r.Weighted(3, 3, 4) {
		case 0:
			sub(tAny)
			g.kw("and")
			sub(tAny)
		case 1:
			sub(tAny)
			g.kw("or")
			sub(tAny)
		default:
			g.expr(typ(g.r.Range(1, 4)), d)
		}
	}
}

func (g *g) anyType() typ { return typ(g.r.Weighted(2, 5, 2, 5, 2, 1)) }

// illTyped emits an expression that fails at run time.
func (g *g) illTyped() {
	switch g.r.Intn(5) {
	case 0:
		g.atom(tInt)
		g.punct("/")
		g.tok("0", KInt)
	case 1:
		g.punct("-")
		g.tok(g.strLit(), KStr)
	case 2:
		g.atom(tInt)
		g.punct("+")
		g.tok(g.strLit(), KStr)
	case 3:
		g.kw("true")
		g.punct("<")
		g.atom(tInt)
	default:
		g.kw("nil")
		g.punct("*")
		g.atom(tInt)
	}
}

// ---- statements

func (g *g) beginStmt() {
	if g.depth == 0 {
		g.stmtFirst = append(g.stmtFirst, len(g.toks))
	}
}
func (g *g) endStmt() {
	if g.r.Chance(1, 5) {
		g.punct(";")
	}
	if g.depth == 0 {
		g.stmt++
	}
}

func (g *g) varDecl() {
	g.beginStmt()
	g.kw("var")
	name := g.freshVar()
	g.tok(name, KIdent)
	t := tNil
	if g.r.Chance(9, 10) {
		g.punct("=")
		t = g.anyType()
		g.expr(t, g.cfg.ExprDepth)
	}
	g.vars = append(g.vars, scopeVar{name, t})
	g.nlocals++
	g.endStmt()
}

func (g *g) printStmt() {
	g.beginStmt()
	g.kw("print")
	if !g.cfg.Safe && g.r.Chance(1, 60) {
		g.illTyped()
	} else {
		g.expr(g.anyType(), g.cfg.ExprDepth)
	}
	g.endStmt()
}

func (g *g) evalStmt() {
	g.beginStmt()
	g.kw("eval")
	if len(g.vars) > 0 && g.r.Chance(4, 5) {
		i := g.r.Intn(len(g.vars))
		g.tok(g.vars[i].name, KIdent)
		g.punct("=")
		t := g.vars[i].t
		if t == tNil || t == tAny || g.r.Chance(1, 5) {
			t = g.anyType()
		}
		g.expr(t, g.cfg.ExprDepth)
		g.vars[i].t = t
	} else {
		g.expr(g.anyType(), g.cfg.ExprDepth)
	}
	g.endStmt()
}

func (g *g) fieldAssign() {
	g.beginStmt()
	name := g.fieldName()
	// never reuse a visible local's name as a field (locals win)
	for _, v := range g.vars {
		if v.name == name {
			name = name + "_f"
		}
	}
	g.tok(name, KIdent)
	g.punct("=")
	t := g.anyType()
	if t == tNil && g.r.Chance(3, 4) {
		t = tInt
	}
	g.expr(t, g.cfg.ExprDepth)
	b := &g.blocks[len(g.blocks)-1]
	found := false
	for i := range b.fields {
		if b.fields[i].name == name {
			b.fields[i].t = t
			found = true
		}
	}
	if !found {
		b.fields = append(b.fields, scopeVar{name, t})
	}
	// a following statement must not start with ( + - : force ';' sometimes
	if g.r.Chance(1, 5) {
		g.punct(";")
	}
	if g.depth == 0 {
		g.stmt++
	}
}

func (g *g) blockStmt(usedKeys map[string]bool) {
	g.beginStmt()
	g.kw("def")
	bt := prng.Pick(g.r, typePool)
	if g.cfg.LongTail && g.r.Chance(1, 20) {
		bt = "t" + g.longIdent()
	}
	name := ""
	if g.r.Chance(1, 2) {
		name = fmt.Sprintf("n%d", g.r.Intn(1000))
		if g.r.Chance(1, 6) {
			name = "my-service." + name
		}
		if g.r.Chance(1, 8) && len(g.toks) > 0 {
			// a block name that spells an earlier literal or identifier
			if t := g.toks[g.r.Intn(len(g.toks))]; (t.Kind == KInt || t.Kind == KFloat || t.Kind == KIdent) && len(t.Text) < 40 {
				name = t.Text
			}
		}
	}
	key := bt
	if name != "" {
		key = bt + "." + name
	}
	if usedKeys != nil {
		for usedKeys[key] {
			g.nameN++
			name = fmt.Sprintf("u%d", g.nameN)
			key = bt + "." + name
		}
		usedKeys[key] = true
	}
	if name == "" && len(g.blocks) > 0 {
		pb := &g.blocks[len(g.blocks)-1]
		defer func() { pb = &g.blocks[len(g.blocks)-1]; pb.children = append(pb.children, bt) }()
	}
	g.tok(bt, KIdent)
	if name != "" {
		if g.cfg.LongTail && g.r.Chance(1, 10) {
			name = name + g.longIdent()
		}
		g.tok(`"`+name+`"`, KStr)
	}
	g.punct("{")
	if g.depth == 0 {
		g.types = append(g.types, bt)
	}
	g.depth++
	g.blocks = append(g.blocks, blockScope{nvars: len(g.vars)})
	childKeys := map[string]bool{}
	n := g.r.Range(0, 6)
	for i := 0; i < n; i++ {
		switch {
		case g.depth <= g.cfg.MaxDepth && g.r.Chance(1, 5):
			g.blockStmt(childKeys)
		case g.r.Chance(1, 6) && g.nlocals < 200:
			g.varDecl()
		case g.r.Chance(1, 10):
			g.printStmt()
		case g.r.Chance(1, 12):
			g.evalStmt()
		default:
			g.fieldAssign()
		}
	}
	b := g.blocks[len(g.blocks)-1]
	g.blocks = g.blocks[:len(g.blocks)-1]
	g.nlocals -= len(g.vars) - b.nvars
	g.vars = g.vars[:b.nvars]
	g.depth--
	g.punct("}")
	g.endStmt()
}

func (g *g) bindStmt() {
	g.beginStmt()
	g.kw("bind")
	bt := prng.Pick(g.r, g.types)
	g.tok(bt, KIdent)
	cnt := 0
	for _, t := range g.types {
		if t == bt {
			cnt++
		}
	}
	sel := ""
	if cnt > 1 || g.r.Chance(1, 3) {
		if cnt > 1 {
			sel = prng.Pick(g.r, []string{"first", "last", "all"})
		} else {
			sel = prng.Pick(g.r, []string{"1", "first", "last", "all"})
		}
	}
	target := prng.Pick(g.r, []string{"struct", "slice"})
	if sel == "all" {
		target = "slice"
	}
	if sel != "" {
		g.punct(":")
		if sel == "1" {
			g.tok("1", KInt)
		} else {
			g.tok(sel, KIdent)
		}
	}
	g.punct("->")
	g.tok(target, KIdent)
	g.endStmt()
}

// Generate builds a program.
func Generate(r *prng.R, cfg Cfg) *Prog {
	gg := &g{r: r, cfg: cfg}
	top := map[string]bool{}
	_ = top
	for i := 0; i < cfg.Stmts; i++ {
		w := []int{4, 6, 3, 6}
		if cfg.PrintHeavy {
			w = []int{3, 12, 2, 2}
		}
		if cfg.BlockHeavy {
			w = []int{2, 2, 1, 10}
		}
		switch gg.r.Weighted(w...) {
		case 0:
			if gg.nlocals < 200 {
				gg.varDecl()
			} else {
				gg.printStmt()
			}
		case 1:
			gg.printStmt()
		case 2:
			gg.evalStmt()
		default:
			gg.blockStmt(nil)
		}
		if !cfg.NoBind && len(gg.types) > 0 && gg.r.Chance(1, 25) {
			gg.bindStmt()
		}
	}
	if !cfg.NoBind && len(gg.types) > 0 && gg.r.Chance(2, 3) {
		gg.bindStmt()
	}
	p := &Prog{Toks: gg.toks, NStmts: gg.stmt, Plants: gg.plants, StmtFirst: gg.stmtFirst, BindTypes: gg.types}
	p.Layout(r, cfg)
	return p
}

// ---- layout

func wordy(b byte) bool {
	return b == '_' || b >= '0' && b <= '9' || b >= 'a' && b <= 'z' || b >= 'A' && b <= 'Z'
}

// NeedSep reports whether two adjacent token texts must be separated to lex
// as the same two tokens.
func NeedSep(a, b string) bool {
	if a == "" || b == "" {
		return false
	}
	la, fb := a[len(a)-1], b[0]
	if (wordy(la) || la == '"') && (wordy(fb) || fb == '"') {
		// ident/number/keyword/string followed by the same family: sticky
		if la == '"' && fb == '"' {
			return true
		}
		return true
	}
	if wordy(la) && fb == '.' {
		return true
	}
	switch {
	case (la == '=' || la == '!' || la == '<' || la == '>') && fb == '=':
		return true
	case la == '-' && fb == '>':
		return true
	}
	return false
}

var plainSeps = []string{" ", " ", " ", "\n", "\n", "  ", "\t", "\n\n", " \n", "\n    "}
var exoticSeps = []string{"\r\n", "\r", "\v", "\f", " ", "\u0085", "   ", "\t\t", "\n\r\n", "\u0085\n", " \r\n\t"}
var exoticSepsASCII = []string{"\r\n", "\r", "\v", "\f", "\t\t", "\n\r\n", " \r\n\t"}
var commentBodies = []string{"", " comment", " \U0001F600 four-byte \U0001F680", "\U0001F600", " a \"quoted\" thing", " var def print }", " é→日本", "#", " x = 1 ; y", "\t", "  \u0085", " trailing  ", " ' ` \\ "}

func (p *Prog) sep(r *prng.R, cfg Cfg, must bool, afterStmt bool) string {
	if cfg.OneLine {
		if !must && r.Chance(cfg.Tight, 100) {
			return ""
		}
		return prng.Pick(r, []string{" ", " ", "  ", "\t", "\v", "\f", "\r"})
	}
	if !must && r.Chance(cfg.Tight, 100) {
		return ""
	}
	if r.Chance(cfg.Exotic, 100) {
		if r.Chance(1, 2) {
			// comment: needs a line end to terminate
			c := "#" + prng.Pick(r, commentBodies)
			if cfg.NoMB {
				c = "# c " + fmt.Sprint(r.Intn(100))
			}
			pre := prng.Pick(r, []string{"", " ", "\n", "\t"})
			return pre + c + prng.Pick(r, []string{"\n", "\r\n", "\r", "\n\n"})
		}
		if cfg.NoMB {
			return prng.Pick(r, exoticSepsASCII)
		}
		return prng.Pick(r, exoticSeps)
	}
	if afterStmt && r.Chance(3, 4) {
		return "\n"
	}
	return prng.Pick(r, plainSeps)
}

// Layout picks separators and renders Src, recording token offsets.
func (p *Prog) Layout(r *prng.R, cfg Cfg) {
	p.Seps = make([]string, len(p.Toks)+1)
	if cfg.Pad > 0 && !cfg.OneLine {
		p.Seps[0] = MakePad(r, cfg.Pad)
	} else if r.Chance(1, 5) {
		p.Seps[0] = p.sep(r, cfg, false, false)
	}
	for i := 1; i < len(p.Toks); i++ {
		must := NeedSep(p.Toks[i-1].Text, p.Toks[i].Text)
		after := p.Toks[i].Stmt != p.Toks[i-1].Stmt
		p.Seps[i] = p.sep(r, cfg, must, after)
	}
	if len(p.Toks) > 0 && cfg.OneLine {
		p.Seps[len(p.Toks)] = prng.Pick(r, []string{"", " "})
	} else if len(p.Toks) > 0 {
		switch r.Intn(4) {
		case 0:
			p.Seps[len(p.Toks)] = ""
		case 1:
			p.Seps[len(p.Toks)] = "\n"
		default:
			p.Seps[len(p.Toks)] = p.sep(r, cfg, false, true)
			if r.Chance(1, 6) {
				p.Seps[len(p.Toks)] += "# last line without newline"
			}
		}
	}
	p.Render()
}

// MakePad builds n bytes of leading layout (comment lines and blanks).
func MakePad(r *prng.R, n int) string {
	var sb strings.Builder
	for sb.Len() < n {
		left := n - sb.Len()
		if left < 3 {
			sb.WriteString(strings.Repeat(" ", left))
			break
		}
		l := r.Range(1, 70)
		if l > left-2 {
			l = left - 2
		}
		sb.WriteByte('#')
		for i := 0; i < l; i++ {
			const a = "abcdefghijklmnopqrstuvwxyz     \"=#"
			sb.WriteByte(a[r.Intn(len(a))])
		}
		sb.WriteByte('\n')
	}
	return sb.String()
}

// Render rebuilds Src from Toks and Seps and records offsets.
func (p *Prog) Render() {
	var sb strings.Builder
	for i := range p.Toks {
		sb.WriteString(p.Seps[i])
		p.Toks[i].Start = sb.Len()
		sb.WriteString(p.Toks[i].Text)
		p.Toks[i].End = sb.Len()
	}
	sb.WriteString(p.Seps[len(p.Toks)])
	p.Src = []byte(sb.String())
}

// TokenEnds returns the set of token end offsets.
func (p *Prog) TokenEnds() map[int]bool {
	m := make(map[int]bool, len(p.Toks))
	for _, t := range p.Toks {
		m[t.End] = true
	}
	return m
}

// Clone copies the token list and separators.
func (p *Prog) Clone() *Prog {
	q := *p
	q.Toks = append([]Tok(nil), p.Toks...)
	q.Seps = append([]string(nil), p.Seps...)
	q.Plants = append([]Plant(nil), p.Plants...)
	q.Src = append([]byte(nil), p.Src...)
	return &q
}
