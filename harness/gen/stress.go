package gen

import (
	"fmt"
	"strings"

	"verifharness/prng"
)

// StressLiteral returns a literal spelling at or beyond what the conversion
// routines accept.
func StressLiteral(r *prng.R) string {
	digits := func(n int) string {
		var sb strings.Builder
		for i := 0; i < n; i++ {
			sb.WriteByte(byte('0' + r.Intn(10)))
		}
		return sb.String()
	}
	switch r.Intn(14) {
	case 0:
		return "0" + digits(r.Range(1, 6)) // leading zero: octal or malformed (08, 09)
	case 1:
		return prng.Pick(r, []string{"0x", "0X", "0x0", "0xFFFFFFFFFFFFFFFF", "0x7FFFFFFFFFFFFFFF", "0x8000000000000000", "0xfffffffffffffffff", "0Xabcdef0123456789ab"})
	case 2:
		return "9" + digits(r.Range(17, 21)) // around the int64 limit
	case 3:
		return prng.Pick(r, []string{"9223372036854775807", "9223372036854775808", "18446744073709551615", "18446744073709551616", "99999999999999999999"})
	case 4:
		return fmt.Sprintf("%de%d", r.Range(0, 99), r.Range(300, 9999))
	case 5:
		return fmt.Sprintf("%d.%de-%d", r.Intn(10), r.Intn(1000), r.Range(300, 9999))
	case 6:
		return fmt.Sprintf("%d.%dE+%d", r.Intn(10), r.Intn(1000), r.Range(300, 400))
	case 7:
		return digits(r.Range(30, 400)) + "." + digits(r.Range(1, 400))
	case 8:
		return "0." + strings.Repeat("0", r.Range(300, 400)) + digits(3)
	case 9:
		// every two-byte escape
		return "\"a\\" + string([]byte{byte(r.Range(1, 255))}) + "b\""
	case 10:
		return prng.Pick(r, []string{`"\x"`, `"\x4"`, `"\xZZ"`, `"\u12"`, `"\u"`, `"\U0011FFFF"`, `"\UFFFFFFFF"`, `"\400"`, `"\8"`, `"\777"`, `"\'"`, `"\ "`, `"\q"`, `"\0"`, `"\08"`, `"\ud800"`, `"\c"`})
	case 11:
		return "\"" + string([]byte{byte(r.Range(128, 255)), byte(r.Range(0, 255))}) + "\""
	case 12:
		return prng.Pick(r, []string{"00", "000", "0e0", "0e", "00.0", "0.0e0", "1e0", "0x0.8", "1_000", "0b101", "0o17", "1e+", "1e-", ".5", "5.", "1..2", "1.2.3", "0x1p3", "1E400", "1e308", "1e309", "1.7976931348623159e308", "4.9e-325", "2.4e-324"})
	default:
		return "0" + strings.Repeat("0", r.Range(1, 30)) + digits(r.Range(0, 20))
	}
}

// LiteralStress places stress literals at the literal positions of a few
// statement templates.
func LiteralStress(r *prng.R) []byte {
	L := func() string { return StressLiteral(r) }
	var sb strings.Builder
	n := r.Range(1, 4)
	for i := 0; i < n; i++ {
		switch r.Intn(10) {
		case 0:
			fmt.Fprintf(&sb, "print %s\n", L())
		case 1:
			fmt.Fprintf(&sb, "var a%d = %s\n", i, L())
		case 2:
			fmt.Fprintf(&sb, "def t %s {}\n", L())
		case 3:
			fmt.Fprintf(&sb, "def t { f = %s }\n", L())
		case 4:
			fmt.Fprintf(&sb, "print %s + %s\n", L(), L())
		case 5:
			fmt.Fprintf(&sb, "print -%s\n", L())
		case 6:
			fmt.Fprintf(&sb, "def t {}\nbind t:%s -> struct\n", L())
		case 7:
			// the empty string keeps the legitimate result small whatever the count
			fmt.Fprintf(&sb, "print \"\" * %s\n", L())
		case 8:
			fmt.Fprintf(&sb, "print 1 / %s\n", L())
		default:
			fmt.Fprintf(&sb, "eval (%s) == %s\n", L(), L())
		}
	}
	return []byte(sb.String())
}

// LimitKinds are the implementation limits scaled by LimitProgram.
var LimitKinds = []string{"blocks", "locals", "rightnest", "parens", "jump-and", "jump-or", "repeat", "flatchain", "notchain", "negchain",
	"manyblocks", "manyconsts", "hugeident", "hugestring", "blocklocals", "fieldchain", "deepblocks-vars", "fieldtemps"}

// ForceN, when positive, fixes the size of the next manyconsts / hugeident / hugestring program
// (the first run indices of a check visit the large sizes deterministically).
var ForceN int

// LimitProgram builds a valid program scaled to just below, at or above an
// implementation limit. big allows the slow ones (hundreds of KiB).
func LimitProgram(r *prng.R, kind string, big bool) []byte {
	var sb strings.Builder
	switch kind {
	case "blocks":
		n := r.Range(14, 19)
		for i := 0; i < n; i++ {
			fmt.Fprintf(&sb, "def b%d { f = %d\n", i, i)
		}
		sb.WriteString(strings.Repeat("}", n))
	case "locals":
		n := r.Range(1019, 1027)
		for i := 0; i < n; i++ {
			fmt.Fprintf(&sb, "var v%d = %d\n", i, i%7)
		}
		// expression temporaries on top
		t := r.Range(0, 4)
		sb.WriteString("print 1")
		for i := 0; i < t; i++ {
			sb.WriteString("+(2")
		}
		sb.WriteString(strings.Repeat(")", t))
		sb.WriteString("\n")
	case "fieldtemps":
		// the operand stack filled by variables; the temporaries on top come from every kind of push:
		// literals, constants, local reads, field reads, TYPE/NAME
		n := r.Range(1016, 1026)
		for i := 0; i < n; i++ {
			fmt.Fprintf(&sb, "var v%d = %d\n", i, i%7)
		}
		sb.WriteString("def b \"n\" {\nx = 1\neval ")
		t := r.Range(0, 7)
		atoms := []string{"1", "7", "x", "v0", "NAME", "TYPE", "2.5", "true", "nil", "\"s\""}
		for i := 0; i < t; i++ {
			sb.WriteString(prng.Pick(r, atoms) + prng.Pick(r, []string{" == (", " + (", " and (", " or ("}))
		}
		sb.WriteString(prng.Pick(r, atoms))
		sb.WriteString(strings.Repeat(")", t))
		sb.WriteString("\n}\n")
	case "blocklocals":
		n := r.Range(1015, 1025)
		sb.WriteString("def b {\n")
		for i := 0; i < n; i++ {
			fmt.Fprintf(&sb, "var v%d = %d\n", i, i%5)
		}
		sb.WriteString("f = v0 + (v1 + (v2 + 3))\n}\n")
	case "rightnest":
		n := r.Range(1018, 1030)
		sb.WriteString("print ")
		for i := 0; i < n; i++ {
			sb.WriteString("1+(")
		}
		sb.WriteString("1")
		sb.WriteString(strings.Repeat(")", n))
	case "parens":
		n := prng.Pick(r, []int{10, 1023, 1024, 1025, 5000, 10000})
		sb.WriteString("print ")
		sb.WriteString(strings.Repeat("(", n))
		sb.WriteString("7")
		sb.WriteString(strings.Repeat(")", n))
	case "jump-and", "jump-or":
		// the right operand compiles to about 65536 bytes of code, so that the 16-bit jump
		// distance is just below, at or above its limit; terms of different code size (ONE ADD =
		// 2 bytes, CONST k ADD = 3, ONE NEG ADD = 3, GETLOCAL ADD) and both truth values of the
		// left operand, so that the jump is taken or not and a wrong distance lands anywhere
		op := "and"
		if kind == "jump-or" {
			op = "or"
		}
		left := prng.Pick(r, []string{"0", "1", "false", "true", "\"\"", "v"})
		target := 65536 + r.Range(-9, 9)
		if r.Chance(1, 4) {
			target = 65536 + r.Range(-300, 3000)
		}
		fmt.Fprintf(&sb, "var v = %d\nprint %s %s 1", r.Intn(2), left, op)
		size := 1
		for size < target {
			switch r.Intn(5) {
			case 0, 1:
				sb.WriteString("+1")
				size += 2
			case 2:
				sb.WriteString("+7")
				size += 3
			case 3:
				sb.WriteString("+ -1")
				size += 3
			default:
				sb.WriteString("*v")
				size += 3
			}
		}
	case "repeat":
		cnt := prng.Pick(r, []int{-2, -1, 0, 1, 2, 1024, 65536, 1048576})
		s := prng.Pick(r, []string{"", "a", "ab"})
		if cnt > 2 && len(s) == 2 {
			cnt /= 2
		}
		fmt.Fprintf(&sb, "print \"%s\" * %d == \"\"\nvar n = %d\nprint \"%s\" * n == \"x\"\nprint \"%s\" * (0 - %d) == \"\"\n", s, cnt, cnt, s, s, r.Range(0, 3))
	case "flatchain":
		n := r.Range(100, 3000)
		sb.WriteString("print 1")
		sb.WriteString(strings.Repeat(prng.Pick(r, []string{"+1", "*1", "-1", " and 1", " or 0", " == 1"}), n))
	case "notchain":
		n := prng.Pick(r, []int{100, 1023, 1024, 1025, 9000})
		sb.WriteString("print ")
		sb.WriteString(strings.Repeat("not ", n))
		sb.WriteString("1")
	case "negchain":
		n := prng.Pick(r, []int{100, 1023, 1024, 1025, 9000})
		sb.WriteString("print ")
		sb.WriteString(strings.Repeat("- ", n))
		sb.WriteString("1")
	case "manyblocks":
		n := r.Range(200, 2000)
		for i := 0; i < n; i++ {
			fmt.Fprintf(&sb, "def t \"n%d\" { f = %d }\n", i, i)
		}
		sb.WriteString("bind t:all -> slice\n")
	case "manyconsts":
		n := r.Range(230, 260)
		if big {
			n = prng.Pick(r, []int{2280, 2295, 67820, 67830})
		}
		if ForceN > 0 {
			n = ForceN
		}
		for i := 0; i < n; i++ {
			fmt.Fprintf(&sb, "eval %d\n", i+2)
		}
		fmt.Fprintf(&sb, "print %d\n", n+5)
	case "hugeident":
		n := prng.Pick(r, []int{4095, 4096, 4097, 8192, 70000})
		if !big && n > 9000 {
			n = 5000
		}
		if ForceN > 0 {
			n = ForceN
		}
		id := "i" + strings.Repeat("x", n)
		fmt.Fprintf(&sb, "var %s = 1\nprint %s\ndef t { %s2 = %s }\n", id, id, id, id)
	case "hugestring":
		n := prng.Pick(r, []int{4095, 4096, 4097, 8192, 70000, 300000})
		if !big && n > 9000 {
			n = 5000
		}
		if ForceN > 0 {
			n = ForceN
		}
		fmt.Fprintf(&sb, "print \"%s\" == \"\"\n", strings.Repeat("s", n))
	case "fieldchain":
		n := r.Range(14, 17)
		for i := 0; i < n; i++ {
			fmt.Fprintf(&sb, "def b%d { f%d = %d\n", i, i, i)
		}
		sb.WriteString("g = f0")
		for i := 1; i < n; i++ {
			fmt.Fprintf(&sb, " + f%d", i)
		}
		sb.WriteString("\n")
		sb.WriteString(strings.Repeat("}", n))
	case "deepblocks-vars":
		n := r.Range(12, 18)
		per := 1100 / n
		for i := 0; i < n; i++ {
			fmt.Fprintf(&sb, "def b%d {\n", i)
			for j := 0; j < per; j++ {
				fmt.Fprintf(&sb, "var v%d_%d = %d\n", i, j, j)
			}
		}
		sb.WriteString(strings.Repeat("}", n))
	}
	sb.WriteString("\n")
	return []byte(sb.String())
}
