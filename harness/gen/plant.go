package gen

import (
	"fmt"
	"strings"

	"verifharness/prng"
)

// PlantKinds lists the diagnostics whose true position follows directly from
// the documented behaviour: a run-time error is reported after the last token
// of the failing operation; a compile diagnostic at (or just after) the
// planted statement.
var RuntimePlants = []string{"rt.divzero", "rt.divzero.paren", "rt.divzero.var", "rt.negstr", "rt.unknownident", "rt.bindnone",
	"rt.bindtwo", "rt.dupchild", "rt.badtypes", "rt.unplus", "rt.cmp"}
var WarnPlants = []string{"warn.rebind"}
var CompilePlants = []string{"ct.strayparen", "ct.missingoperand", "ct.dupvar", "ct.assignlit", "ct.undefinedvar", "ct.lex", "ct.badbind", "ct.noblocktype", "ct.unterminated", "ct.badblockname", "ct.badlit"}

// ExactCompilePlants are those whose offending token is beyond doubt: the diagnostic must
// designate the end of exactly that token (the second declaration's name, the unknown name,
// the malformed literal, the bad selector, the block name with the bad escape).
var ExactCompilePlants = map[string]bool{"ct.dupvar": true, "ct.undefinedvar": true, "ct.badbind": true, "ct.badblockname": true, "ct.badlit": true}

// AddPlant appends a planted statement (sequence) at the end of the program
// and re-renders it. The program must have been generated with Cfg.Safe for
// a run-time plant to be the first thing that fails.
func AddPlant(r *prng.R, p *Prog, kind string, cfg Cfg) {
	stmt := p.NStmts
	first := len(p.Toks)
	add := func(text string, k Kind) int {
		p.Toks = append(p.Toks, Tok{Text: text, Kind: k, Stmt: stmt})
		return len(p.Toks) - 1
	}
	kw := func(s string) int { return add(s, KKw) }
	pu := func(s string) int { return add(s, KPunct) }
	id := func(s string) int { return add(s, KIdent) }
	pl := Plant{Kind: kind, Tok: -1, StmtFirst: first}
	uniq := fmt.Sprintf("pl%d", r.Intn(100000))
	if r.Chance(1, 5) {
		// names longer than any plausible fixed-size message buffer
		uniq += strings.Repeat("q", prng.Pick(r, []int{58, 64, 65, 120, 300, 1100}))
	}
	lead := func() {
		switch r.Intn(3) {
		case 0:
			kw("print")
		case 1:
			kw("var")
			id("q" + uniq)
			pu("=")
		default:
			kw("eval")
		}
	}
	switch kind {
	case "rt.divzero":
		lead()
		add(fmt.Sprint(r.Range(2, 900)), KInt)
		pu("/")
		pl.Tok = add("0", KInt)
		pl.Match = "division by int zero"
		pl.Runtime = true
	case "rt.divzero.paren":
		lead()
		add("7", KInt)
		pu("+")
		add("3", KInt)
		pu("/")
		pu("(")
		add("0", KInt)
		pl.Tok = pu(")")
		pl.Match = "division by int zero"
		pl.Runtime = true
	case "rt.divzero.var":
		kw("var")
		id("z" + uniq)
		pu("=")
		add("0", KInt)
		stmt++
		kw("print")
		add("12", KInt)
		pu("/")
		pl.Tok = id("z" + uniq)
		pl.Match = "division by int zero"
		pl.Runtime = true
	case "rt.negstr":
		lead()
		pu("-")
		pl.Tok = add(`"s`+uniq+`"`, KStr)
		pl.Match = "NEG: invalid type"
		pl.Runtime = true
	case "rt.unplus":
		lead()
		pu("+")
		pl.Tok = kw("true")
		pl.Match = "UNPLUS: invalid type"
		pl.Runtime = true
	case "rt.badtypes":
		lead()
		add("1", KInt)
		pu("+")
		pl.Tok = add(`"s"`, KStr)
		pl.Match = "ADD: invalid types"
		pl.Runtime = true
	case "rt.cmp":
		lead()
		add(`"a"`, KStr)
		pu("<")
		pl.Tok = add("3", KInt)
		pl.Match = "LT: invalid types"
		pl.Runtime = true
	case "rt.unknownident":
		kw("def")
		id("zz" + uniq)
		pu("{")
		id("f")
		pu("=")
		pl.Tok = id("nosuch" + uniq)
		pu("}")
		pl.Match = "not resolved as var or field"
		pl.Runtime = true
	case "rt.bindnone":
		kw("bind")
		id("nosuch" + uniq)
		pu("->")
		pl.Tok = id(prng.Pick(r, []string{"struct", "slice"}))
		pl.Match = "bind: no blocks of type"
		pl.Runtime = true
	case "rt.bindtwo":
		for i := 0; i < 2; i++ {
			kw("def")
			id("dup" + uniq)
			pu("{")
			pu("}")
			stmt++
		}
		kw("bind")
		id("dup" + uniq)
		pu("->")
		pl.Tok = id("struct")
		pl.Match = "but expected just 1"
		pl.Runtime = true
	case "rt.dupchild":
		kw("def")
		id("outer" + uniq)
		pu("{")
		kw("def")
		id("c")
		pu("{")
		pu("}")
		kw("def")
		id("c")
		pu("{")
		id("g")
		pu("=")
		add("1", KInt)
		pl.Tok = pu("}")
		pu("}")
		pl.Match = "duplicate at parent"
		pl.Runtime = true
	case "warn.rebind":
		kw("def")
		id("w" + uniq)
		pu("{")
		pu("}")
		stmt++
		kw("bind")
		id("w" + uniq)
		pu("->")
		id("struct")
		stmt++
		kw("bind")
		id("w" + uniq)
		if r.Chance(1, 2) {
			pu(":")
			id("first")
		}
		pu("->")
		pl.Tok = id("slice")
		pl.Match = "repeated bind statement"
		pl.Warning = true
	case "ct.strayparen":
		kw("print")
		add("1", KInt)
		pl.Tok = pu(")")
		pl.Match = "error at ')'"
	case "ct.missingoperand":
		kw("print")
		add("1", KInt)
		pu("+")
		pl.Tok = -1 // end of input
		pl.Match = "error at end"
	case "ct.dupvar":
		kw("var")
		id("d" + uniq)
		pu("=")
		add("1", KInt)
		stmt++
		kw("var")
		pl.Tok = id("d" + uniq)
		pu("=")
		add("2", KInt)
		pl.Match = "already present in this scope"
	case "ct.assignlit":
		kw("eval")
		add("1", KInt)
		pl.Tok = pu("=")
		add("2", KInt)
		pl.Match = "invalid assignment target"
	case "ct.undefinedvar":
		kw("print")
		pl.Tok = id("nosuch" + uniq)
		pl.Match = "undefined variable"
	case "ct.lex":
		kw("print")
		add("1", KInt)
		pl.Tok = add("@", KPunct)
		pl.Match = "unknown char"
	case "ct.unterminated":
		kw("print")
		pl.Tok = add(`"abc`, KStr)
		pl.Match = "unterminated quoted string"
	case "ct.badbind":
		kw("bind")
		id("t1")
		pu(":")
		pl.Tok = id("second")
		pu("->")
		id("struct")
		pl.Match = "as a block selector"
	case "ct.badblockname":
		kw("def")
		id("bn" + uniq)
		pl.Tok = add(`"a\qb"`, KStr)
		pu("{")
		pu("}")
		pl.Match = "invalid block name"
	case "ct.badlit":
		kw("print")
		pl.Tok = add(prng.Pick(r, []string{"08", "0x", "1e999", "99999999999999999999", `"\q"`}), KInt)
		pl.Match = "literal"
	case "ct.noblocktype":
		kw("def")
		pl.Tok = pu("{")
		pu("}")
		pl.Match = "expected block type"
	default:
		panic("unknown plant " + kind)
	}
	pl.StmtLast = len(p.Toks) - 1
	p.NStmts = stmt + 1
	p.Plants = append(p.Plants, pl)
	p.Layout(r, cfg)
	// layout rules specific to plants
	switch kind {
	case "ct.missingoperand":
		// keep "at end" honest: trailing layout may be anything, the EOF
		// token sits at len(src)
	case "ct.unterminated":
		// the string must be ended by a newline or the end of input, never
		// by more text on the line that could close it
		if r.Chance(1, 2) {
			p.Seps[len(p.Toks)] = "\n"
		} else {
			p.Seps[len(p.Toks)] = ""
		}
		p.Render()
	}
}

// AddWide prepends n statements that each add a distinct constant (or, in a block-free
// program, a local), so that constant indices, slot numbers and POPN counts of everything
// that follows need multi-byte operands. Call it before AddPlant; it does not re-render.
func AddWide(r *prng.R, p *Prog, n int, locals bool) {
	var toks []Tok
	for i := 0; i < n; i++ {
		if locals {
			toks = append(toks, Tok{Text: "var", Kind: KKw, Stmt: i}, Tok{Text: fmt.Sprintf("w%d", i), Kind: KIdent, Stmt: i},
				Tok{Text: "=", Kind: KPunct, Stmt: i}, Tok{Text: fmt.Sprint(1000 + i), Kind: KInt, Stmt: i})
		} else {
			toks = append(toks, Tok{Text: "eval", Kind: KKw, Stmt: i}, Tok{Text: fmt.Sprint(1000 + i), Kind: KInt, Stmt: i})
		}
	}
	for i := range p.Toks {
		p.Toks[i].Stmt += n
	}
	for i := range p.Plants {
		if p.Plants[i].Tok >= 0 {
			p.Plants[i].Tok += len(toks)
		}
		p.Plants[i].StmtFirst += len(toks)
		p.Plants[i].StmtLast += len(toks)
	}
	p.Toks = append(toks, p.Toks...)
	p.NStmts += n
}

// LeadingLexFails are characters that cannot start a token; at the very beginning of the input
// (where an editor may have left a byte-order mark) they are a lexical failure like anywhere else.
var LeadingLexFails = []string{"\ufeff", "@", "`", "$", "\ufeff"}

// AddLeadingLexFail puts one such character in front of the program as its first token and
// records it as a planted lexical failure; every other plant moves one token to the right.
func AddLeadingLexFail(r *prng.R, p *Prog, cfg Cfg) {
	for i := range p.Toks {
		p.Toks[i].Stmt++
	}
	for i := range p.Plants {
		if p.Plants[i].Tok >= 0 {
			p.Plants[i].Tok++
		}
		p.Plants[i].StmtFirst++
		p.Plants[i].StmtLast++
	}
	p.Toks = append([]Tok{{Text: prng.Pick(r, LeadingLexFails), Kind: KPunct, Stmt: 0}}, p.Toks...)
	p.NStmts++
	p.Plants = append([]Plant{{Kind: "ct.lex", Tok: 0, Match: "unknown char", StmtFirst: 0, StmtLast: 0}}, p.Plants...)
	p.Layout(r, cfg)
	if r.Chance(2, 3) {
		p.Seps[0] = "" // at offset 0, as a byte-order mark would be
		p.Render()
	}
}
