package sim

import (
	"testing"
)

// TestWorker is the worker entry point; the parent (cmd/verif) starts this
// test binary with its work order in the environment. It is a test only
// because testing/synctest needs a *testing.T.
func TestWorker(t *testing.T) { WorkerMain(t) }
