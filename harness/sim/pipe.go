package sim

import (
	"bytes"
	"errors"
	"fmt"
	"regexp"
	"runtime"
	"sort"
	"strings"
	"sync/atomic"
	"testing"
	"testing/synctest"

	"github.com/wkhere/bcl"

	"verifharness/prng"
	"verifharness/simio"
)

const (
	OptDisasm = 1
	OptTrace  = 2
	OptStats  = 4
)

// PipeResult is everything observed from one simulated file-pipeline run.
type PipeResult struct {
	Returned                bool
	Err                     error
	ErrText                 string
	Prog                    *bcl.Prog
	Blocks                  []bcl.Block
	Binding                 bcl.Binding
	Target                  any
	Log, Out                string
	File                    *simio.SimFile
	LogW, OutW              *simio.SimWriter // ungated once the bubble is left
	FS                      simio.FileStats
	Steps                   int
	Choices                 []int
	Hash                    uint64
	Events                  []simio.Event
	CallerPanic             string
	ExitPanic               string // synctest's end-of-bubble report (blocked goroutines remain)
	Stacks                  []GInfo
	StepLimit               bool
	RetStep                 int // scheduler step at which the call had returned
	CloseStep               int // scheduler step at which Close had completed (-1: never)
	PendAtRet               []string
	LogGates                int
	OutGates                int
	MaxReadsWhileLogPending int
	ReadCallsAtRet          int    // Read calls begun by the time the call returned
	LateWrites              int    // writes to the caller's writers that began after the call had returned
	RawLogAtReturn          string // RawLog runs: the log as the caller saw it at the moment of return
}

// GInfo describes one goroutine of the bubble that is still alive at the end.
type GInfo struct {
	State   string
	Top     string // innermost bcl function
	Created string
}

func (g GInfo) String() string { return "[" + g.State + "]" + g.Top + "<-" + g.Created }

// UTarget is the Unmarshal target used by UnmarshalFile runs.
type UTarget struct {
	Name       string
	F          int
	Field      string
	LocalPort  int
	Enabled    bool
	MaxLatency float64
	Ff         any
}

// schedState is what a chooser may look at.
type schedState struct {
	step     int
	returned bool
}

type chooser func(pend []*simio.Gate, st *schedState) int

// biasChooser implements the schedule biases of DESIGN.md 3.3; the choice
// it makes is recorded, so a replay never consults it.
func biasChooser(r *prng.R, bias string) chooser {
	pick := func(pend []*simio.Gate, pred func(*simio.Gate) bool) int {
		var idx []int
		for i, g := range pend {
			if pred(g) {
				idx = append(idx, i)
			}
		}
		if len(idx) == 0 {
			return -1
		}
		return idx[r.Intn(len(idx))]
	}
	isRead := func(g *simio.Gate) bool { return g.Obj == simio.OFile && g.Kind == simio.KRead }
	isClose := func(g *simio.Gate) bool { return g.Obj == simio.OFile && g.Kind == simio.KClose }
	isName := func(g *simio.Gate) bool { return g.Obj == simio.OFile && g.Kind == simio.KName }
	isLog := func(g *simio.Gate) bool { return g.Obj == simio.OLog }
	isW := func(g *simio.Gate) bool { return g.Obj == simio.OLog || g.Obj == simio.OOut }
	return func(pend []*simio.Gate, st *schedState) int {
		if len(pend) == 1 {
			return 0
		}
		not := func(p func(*simio.Gate) bool) func(*simio.Gate) bool {
			return func(g *simio.Gate) bool { return !p(g) }
		}
		try := func(p func(*simio.Gate) bool, num, den int) int {
			if r.Chance(num, den) {
				return pick(pend, p)
			}
			return -1
		}
		i := -1
		switch bias {
		case "fifo":
			return 0
		case "lifo":
			return len(pend) - 1
		case "reader-eager":
			i = try(isRead, 9, 10)
		case "parser-eager":
			i = try(isW, 9, 10)
			if i < 0 {
				i = try(isName, 9, 10)
			}
		case "close-last":
			i = try(not(isClose), 19, 20)
		case "name-last":
			i = try(not(isName), 19, 20)
		case "log-last":
			i = try(not(isLog), 19, 20)
		case "close-first":
			i = try(isClose, 9, 10)
		}
		if i >= 0 {
			return i
		}
		return r.Intn(len(pend))
	}
}

var Biases = []string{"uniform", "fifo", "lifo", "reader-eager", "parser-eager", "close-last", "name-last", "log-last", "close-first"}

func replayChooser(choices []int) chooser {
	k := 0
	return func(pend []*simio.Gate, st *schedState) int {
		c := 0
		if k < len(choices) {
			c = choices[k]
		}
		k++
		if c < 0 {
			c = -c
		}
		return c % len(pend)
	}
}

func optsOf(o int, out, log *simio.SimWriter) []bcl.Option {
	return []bcl.Option{
		bcl.OptOutput(out), bcl.OptLogger(log),
		bcl.OptDisasm(o&OptDisasm != 0), bcl.OptTrace(o&OptTrace != 0), bcl.OptStats(o&OptStats != 0),
	}
}

const maxSteps = 200000

// RunPipe executes the scenario's file-variant call inside a synctest bubble
// under the seam scheduler. If sc.Choices is non-nil it is replayed,
// otherwise choices are drawn from the bias chooser seeded by the scenario.
func RunPipe(t *testing.T, sc *Scenario, capture bool, record bool) *PipeResult {
	res := &PipeResult{CloseStep: -1}
	var ch chooser
	if sc.Replay {
		ch = replayChooser(sc.Choices)
	} else {
		ch = biasChooser(prng.New(sc.Seed, "choices", sc.Idx), sc.Bias)
	}
	func() {
		defer func() {
			if r := recover(); r != nil {
				res.ExitPanic = fmt.Sprint(r)
			}
		}()
		synctest.Test(t, func(t *testing.T) {
			s := simio.NewSched()
			s.Record = record
			f := simio.NewSimFile(s, simio.FileCfg{
				Name: sc.Name, Data: sc.Src, Script: sc.Reads, Fill: sc.Fill,
				GateRead: sc.GateRead, GateClose: sc.GateClose, GateName: sc.GateName,
				CloseErr: sc.CloseErr, StatSize: sc.StatSize,
			})
			logw := simio.NewSimWriter(s, simio.OLog, sc.GateLog && !sc.RawLog)
			outw := simio.NewSimWriter(s, simio.OOut, sc.GateOut)
			logw.Raw = sc.RawLog
			res.File = f
			res.LogW, res.OutW = logw, outw
			var returned atomic.Bool
			logw.Returned, outw.Returned = &returned, &returned
			go func() {
				defer func() {
					if r := recover(); r != nil {
						res.CallerPanic = fmt.Sprint(r)
					}
					returned.Store(true)
					if sc.RawLog {
						// what a caller does with the buffer it passed: look at it as soon as the call is back
						res.RawLogAtReturn = string(logw.RawBuf)
					}
				}()
				opts := optsOf(sc.Opts, outw, logw)
				switch sc.API {
				case "InterpretFile":
					res.Blocks, res.Binding, res.Err = bcl.InterpretFile(f, opts...)
				case "UnmarshalFile":
					tg := &UTarget{}
					switch sc.Int("target", 0) {
					case 1:
						res.Err = bcl.UnmarshalFile(f, nil, opts...) // a useless target does not excuse the file handling
					case 2:
						res.Err = bcl.UnmarshalFile(f, UTarget{}, opts...)
					case 3:
						res.Err = bcl.UnmarshalFile(f, 42, opts...)
					default:
						res.Err = bcl.UnmarshalFile(f, tg, opts...)
					}
					res.Target = tg
				default:
					res.Prog, res.Err = bcl.ParseFile(f, opts...)
				}
			}()
			st := &schedState{}
			readsAtLogPend := -1
			for {
				synctest.Wait()
				if returned.Load() && !st.returned {
					st.returned = true
					res.RetStep = st.step
					for _, g := range s.Pending() {
						res.PendAtRet = append(res.PendAtRet, g.String())
					}
					res.ReadCallsAtRet = f.Stats().ReadCalls
				}
				fst := f.Stats()
				if res.CloseStep < 0 && fst.Closes > 0 {
					res.CloseStep = st.step
				}
				pend := s.Pending()
				if len(pend) == 0 {
					break
				}
				if st.step >= maxSteps {
					res.StepLimit = true
					break
				}
				logPending := false
				for _, g := range pend {
					if g.Obj == simio.OLog {
						logPending = true
					}
				}
				if logPending {
					if readsAtLogPend < 0 {
						readsAtLogPend = fst.Reads
					}
					if d := fst.Reads - readsAtLogPend; d > res.MaxReadsWhileLogPending {
						res.MaxReadsWhileLogPending = d
					}
				} else {
					readsAtLogPend = -1
				}
				noteState(pend, st.returned, &fst, res.LogGates, res.OutGates)
				i := ch(pend, st)
				res.Choices = append(res.Choices, i)
				switch pend[i].Obj {
				case simio.OLog:
					res.LogGates++
				case simio.OOut:
					res.OutGates++
				}
				st.step++
				s.Release(i)
			}
			res.Returned = returned.Load()
			res.Steps = st.step
			res.Hash = s.Hash()
			if record {
				res.Events = s.Events()
			}
			res.FS = f.Stats()
			res.LateWrites = int(logw.LateWrites.Load() + outw.LateWrites.Load())
			res.Log = logw.String()
			res.Out = outw.String()
			if capture {
				res.Stacks = bubbleStacks()
			}
			logw.Ungate()
			outw.Ungate()
			if res.StepLimit {
				// let everything drain so that the bubble can be left
				for i := 0; i < 1<<20; i++ {
					synctest.Wait()
					pend := s.Pending()
					if len(pend) == 0 {
						break
					}
					s.Release(0)
				}
			}
		})
	}()
	if res.Err != nil {
		res.ErrText = res.Err.Error()
	}
	Beat()
	// determinism self-test: fold everything observable of this execution
	RunLogHash = (RunLogHash ^ res.Hash ^ hash64(res.ErrText) ^ hash64(res.Log)*3 ^ hash64(res.Out)*5 ^
		uint64(res.FS.Closes)<<40 ^ uint64(res.FS.Reads)<<20 ^ uint64(res.Steps) ^ hash64(res.ExitPanic)*7 ^ hash64(fmt.Sprint(res.Choices))*11) * 1099511628211
	return res
}

// StateSigs collects, per worker process, the distinct abstract quiescent states the
// scheduler has stood in (the measure of reach reported as distinct_states): the shape of
// the pending set (object and kind of every pending gate, without sequence numbers),
// whether the call has returned, whether Close has run, how far reading has got
// (bucketed), whether EOF / an error / a zero-byte read has been delivered, and how many
// log and output writes have been let through (bucketed). Only the scheduler goroutine
// touches it.
var StateSigs = map[uint64]struct{}{}

func bucket(n int) int {
	switch {
	case n < 3:
		return n
	case n < 6:
		return 3
	case n < 20:
		return 4
	case n < 200:
		return 5
	}
	return 6
}

func noteState(pend []*simio.Gate, returned bool, fs *simio.FileStats, logGates, outGates int) {
	if len(StateSigs) >= 1<<20 {
		return
	}
	h := uint64(1469598103934665603)
	mix := func(v int) {
		h ^= uint64(v) + 0x9e37
		h *= 1099511628211
	}
	for _, g := range pend {
		mix(g.Obj<<4 | g.Kind)
	}
	mix(-1)
	b := 0
	if returned {
		b |= 1
	}
	if fs.ErrDelivered {
		b |= 2
	}
	if fs.Remaining == 0 {
		b |= 4
	}
	if fs.ZeroReads > 0 {
		b |= 8
	}
	if fs.ReadAfterEOF > 0 {
		b |= 16
	}
	mix(b)
	mix(bucket(fs.Closes))
	mix(bucket(fs.Reads))
	mix(bucket(fs.ReadCalls - fs.Reads))
	mix(bucket(fs.NameCalls))
	mix(bucket(logGates))
	mix(bucket(outGates))
	StateSigs[h] = struct{}{}
}

// Beat tells the supervising parent that the worker is alive: it is called whenever a call
// into bcl has returned, so a stall of the journal means that a single call into bcl
// neither returned nor reached quiescence - not that a run is long.
var Beat = func() {}

// RunLogHash accumulates, per run, a hash over the event logs and observable
// results of every pipeline execution; the worker resets it before each run.
var RunLogHash uint64

var reHeader = regexp.MustCompile(`^goroutine (\d+) \[([^\]]*)\]:`)

// bubbleStacks lists the goroutines of the current bubble that have a frame
// in package bcl (i.e. were started by, or are, the call under test).
func bubbleStacks() []GInfo {
	buf := make([]byte, 1<<20)
	n := runtime.Stack(buf, true)
	blocks := strings.Split(string(buf[:n]), "\n\n")
	if len(blocks) == 0 {
		return nil
	}
	bubble := ""
	if m := reHeader.FindStringSubmatch(blocks[0]); m != nil {
		if i := strings.Index(m[2], "synctest bubble "); i >= 0 {
			bubble = m[2][i:]
		}
	}
	var out []GInfo
	for _, b := range blocks[1:] {
		m := reHeader.FindStringSubmatch(b)
		if m == nil || bubble == "" || !strings.Contains(m[2], bubble) {
			continue
		}
		if !strings.Contains(b, "github.com/wkhere/bcl") {
			continue
		}
		lines := strings.Split(b, "\n")
		gi := GInfo{State: strings.TrimSpace(strings.Split(m[2], ",")[0])}
		gi.State = strings.TrimSuffix(gi.State, " (durable)")
		for _, l := range lines[1:] {
			if strings.HasPrefix(l, "github.com/wkhere/bcl") && gi.Top == "" {
				gi.Top = funcName(l)
			}
			if strings.HasPrefix(l, "created by ") {
				gi.Created = funcName(strings.TrimPrefix(l, "created by "))
			}
		}
		out = append(out, gi)
	}
	sort.Slice(out, func(i, j int) bool { return out[i].String() < out[j].String() })
	return out
}

func funcName(l string) string {
	l = strings.TrimPrefix(l, "github.com/wkhere/")
	if i := strings.Index(l, " in goroutine"); i >= 0 {
		l = l[:i]
	}
	if i := strings.LastIndex(l, "("); i > 0 && strings.HasSuffix(strings.TrimSpace(l), ")") {
		// strip argument list of the innermost call
		depth := 0
		for j := len(l) - 1; j >= 0; j-- {
			if l[j] == ')' {
				depth++
			} else if l[j] == '(' {
				depth--
				if depth == 0 {
					l = l[:j]
					break
				}
			}
		}
	}
	return strings.TrimSpace(l)
}

// EventStrings renders a recorded event log.
func EventStrings(ev []simio.Event) []string {
	out := make([]string, 0, len(ev))
	for _, e := range ev {
		out = append(out, e.String())
	}
	return out
}

// --- shared helpers over bcl's public API

// ParseMem is the in-memory baseline: bcl.Parse under recover.
type MemResult struct {
	LogBuf, OutBuf *bytes.Buffer
	Prog           *bcl.Prog
	Err            error
	ErrText        string
	Log, Out       string
	Panic          string
	Dump           []byte
	DumpErr        string
}

func ParseMem(src []byte, name string, opts int) *MemResult {
	r := &MemResult{LogBuf: &bytes.Buffer{}, OutBuf: &bytes.Buffer{}}
	logw, outw := r.LogBuf, r.OutBuf
	func() {
		defer func() {
			if x := recover(); x != nil {
				r.Panic = fmt.Sprint(x)
			}
		}()
		r.Prog, r.Err = bcl.Parse(src, name, bcl.OptOutput(outw), bcl.OptLogger(logw),
			bcl.OptDisasm(opts&OptDisasm != 0), bcl.OptStats(opts&OptStats != 0))
	}()
	if r.Err != nil {
		r.ErrText = r.Err.Error()
	}
	r.Log, r.Out = logw.String(), outw.String()
	Beat()
	return r
}

// DumpProg dumps under recover.
func DumpProg(p *bcl.Prog) (b []byte, errText string, panicText string) {
	var buf bytes.Buffer
	func() {
		defer func() {
			if x := recover(); x != nil {
				panicText = fmt.Sprint(x)
			}
		}()
		if err := p.Dump(&buf); err != nil {
			errText = err.Error()
		}
	}()
	return buf.Bytes(), errText, panicText
}

var ErrSentinel = errors.New("sentinel")

// short cuts a string for reports.
func short(s string, n int) string {
	if len(s) > n {
		return s[:n] + fmt.Sprintf("...(%d bytes)", len(s))
	}
	return s
}
