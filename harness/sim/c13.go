package sim

import (
	"bufio"
	"bytes"
	"errors"
	"fmt"
	"io"
	"strings"
	"testing"
	"time"

	"github.com/wkhere/bcl"

	"verifharness/prng"
	"verifharness/simio"
)

// C13: truncated bytecode is rejected with an error.
type c13 struct{}

func init() { register(c13{}) }

func (c13) ID() string { return "C13" }
func (c13) Rule() string {
	return "fault enumeration: for each accepted program of a seeded set, the real Dump writes to a simulated disk that tears the write at byte k, for EVERY k in 0..len-1; the surviving prefix is handed to the real LoadProg under three deliveries (all at once, one byte per read, seeded partition with zero-byte reads and data+EOF); " +
		"plus, on a valid body, all 65536 two-byte magics except FC 6C and all 65536 (major, minor) pairs except 1.0 and 1.1; oracle: a non-nil error, no panic, no hang; " +
		"one evaluation = one (prefix, delivery) load; a run (one program with all its cuts, or one sweep) is non-trivial iff its dump has more than one byte; distinct_nontrivial conservatively counts distinct dumps (programs / sweeps), not the individual cuts"
}

func (c13) Gen(seed uint64, idx int, tier string) *Scenario {
	r := prng.New(seed, "C13", idx)
	sc := &Scenario{Prop: "C13", Seed: seed, Idx: idx}
	switch {
	case idx%40 == 7:
		sc.Class = "magic-sweep"
	case idx%40 == 23:
		sc.Class = "version-sweep"
	default:
		sc.Class = "cuts"
	}
	long := r.Chance(1, 4)
	p := genAccepted(r, long, "small") // long strings up to ~5000 bytes so sections straddle the 4096-byte buffer
	sc.Src = p.Src
	if sc.Class == "cuts" && idx%20 == 11 {
		// sections with more entries than any plausible preallocation cap: > 4096 line feeds,
		// > 4096 positions / constants; in the thorough tier also > 65536 line feeds
		sc.Class = "cuts-big"
		lines := r.Range(4100, 4400)
		sc.SetInt("stride", 3)
		if tier == "thorough" && idx%80 == 11 {
			lines = r.Range(65600, 66000)
			sc.SetInt("stride", 97)
		}
		var sb strings.Builder
		for i := 0; i < lines; i++ {
			switch {
			case i%7 == 3:
				fmt.Fprintf(&sb, "eval %d\n", i+2)
			case i%11 == 5:
				sb.WriteString("# c\n")
			default:
				sb.WriteString("\n")
			}
		}
		sb.WriteString("print 1\n")
		sc.Src = []byte(sb.String())
	}
	sc.Name = prng.Pick(r, []string{"f.bcl", "", "some/longer/name.bcl"})
	sc.SetInt("pseed", r.Intn(1<<30))
	return sc
}

// c13Load hands data to LoadProg and reports a violation unless it fails cleanly.
func c13Load(sc *Scenario, data []byte, script []simio.ReadStep, what string, o *Outcome, sig string) {
	c13LoadOpt(sc, data, script, what, o, sig, false)
}

func c13LoadOpt(sc *Scenario, data []byte, script []simio.ReadStep, what string, o *Outcome, sig string, disasm bool) {
	lr := loadVia(data, script, "n", disasm)
	if disasm {
		what += " with OptDisasm"
	}
	c13Judge(sc, lr, data, script, what, o, sig, map[string]int{"disasm": b2i(disasm)})
}

// usedProg is a Prog that already holds a program with many lines and constants.
func usedProg() (*bcl.Prog, *bytes.Buffer, *bytes.Buffer) {
	var out, log bytes.Buffer
	var sb strings.Builder
	for i := 0; i < 300; i++ {
		fmt.Fprintf(&sb, "eval %d\n\n# c\n", 1000+i)
	}
	sb.WriteString("def t \"n\" { f = 1 }\nprint \"earlier\"\n")
	p, _ := bcl.Parse([]byte(sb.String()), "earlier.bcl", bcl.OptOutput(&out), bcl.OptLogger(&log))
	return p, &out, &log
}

// c13LoadVariant covers the other ways a truncated file reaches the loader: through the Load
// method of a Prog that already held a program; twice into the same Prog (a retry after the
// first failure); through a reader that reports the end of the data as an error of its own
// (a decompressor's unexpected EOF, a failing disk) instead of io.EOF.
func c13LoadVariant(sc *Scenario, data []byte, script []simio.ReadStep, what string, o *Outcome, sig string, variant int) {
	lr := &loadResult{Out: &bytes.Buffer{}, Log: &bytes.Buffer{}}
	overran := false
	if c13Hung[variant] && sc.Class != "single" {
		// one 20 s wait per variant and worker process is enough to report it
		o.probe("skipped_after_hang", 1)
		return
	}
	done := make(chan struct{})
	go func() {
		defer close(done)
		defer func() {
			if x := recover(); x != nil {
				lr.Panic = panicSig(x)
			}
		}()
		switch variant {
		case 1: // used Prog
			p, _, _ := usedProg()
			lr.Err = p.Load(&simio.SimReader{Data: data, Script: script})
			lr.Prog = p
		case 2: // twice into one Prog: the second attempt must fail the same way, not hang
			p, _, _ := usedProg()
			p.Load(&simio.SimReader{Data: data, Script: script})
			lr.Err = p.Load(&simio.SimReader{Data: data})
			lr.Prog = p
		case 3:
			lr.Prog, lr.Err = bcl.LoadProg(&simio.SimReader{Data: data, Script: MarkEOF(script, len(data)), EndErr: io.ErrUnexpectedEOF}, "n", bcl.OptOutput(lr.Out), bcl.OptLogger(lr.Log))
		case 5: // what cmd/bcl passes: something that can also be closed and has a name
			lr.Prog, lr.Err = bcl.LoadProg(&fileLike{SimReader: simio.SimReader{Data: data, Script: script}}, "n", bcl.OptOutput(lr.Out), bcl.OptLogger(lr.Log))
		case 6: // the caller's own buffered reader, retried and then re-used for the next file
			br := bufio.NewReaderSize(&simio.SimReader{Data: data, Script: script}, 8192)
			_, e1 := bcl.LoadProg(br, "n", bcl.OptOutput(lr.Out), bcl.OptLogger(lr.Log))
			_, e2 := bcl.LoadProg(br, "n", bcl.OptOutput(lr.Out), bcl.OptLogger(lr.Log)) // what is left: the empty prefix
			br.Reset(&simio.SimReader{Data: data})
			bcl.LoadProg(bytes.NewReader(c13Small()), "other", bcl.OptOutput(lr.Out), bcl.OptLogger(lr.Log)) // an unrelated, complete load in between
			_, e3 := bcl.LoadProg(br, "n", bcl.OptOutput(lr.Out), bcl.OptLogger(lr.Log))
			lr.Err = e3
			if e1 == nil || e2 == nil {
				lr.Err = nil
			}
		case 7: // Load on a Prog nobody configured
			var p bcl.Prog
			lr.Err = p.Load(&simio.SimReader{Data: data, Script: script})
			lr.Prog = &p
		case 9: // a stream that does not end (a pipe whose writer lives on): the verdict must not wait for its end
			er := &endlessReader{data: data}
			lr.Prog, lr.Err = bcl.LoadProg(er, "n", bcl.OptOutput(lr.Out), bcl.OptLogger(lr.Log))
			if er.overrun {
				lr.Err = nil
				lr.Panic = "" // reported below as its own kind
				overran = true
			}
		case 10, 11, 12, 13: // readers with optional methods that describe a file longer than what the reads deliver
			rk := map[int]int{10: rkStatLarger, 11: rkSizeLarger, 12: rkStatPipe, 13: rkLenTrue}[variant]
			rd := readerOfKind(&simio.SimReader{Data: data, Script: script}, rk, sc.Int("fulllen", len(data)+1+len(data)%977))
			lr.Prog, lr.Err = bcl.LoadProg(rd, "n", bcl.OptOutput(lr.Out), bcl.OptLogger(lr.Log))
		case 14: // every option the call accepts, switched on: none of them may act on a load that failed
			lr.Prog, lr.Err = bcl.LoadProg(&simio.SimReader{Data: data, Script: script}, "n", bcl.OptOutput(lr.Out), bcl.OptLogger(lr.Log),
				bcl.OptDisasm(true), bcl.OptTrace(true), bcl.OptStats(true))
		case 8: // no writers at all
			lr.Prog, lr.Err = bcl.LoadProg(&simio.SimReader{Data: data, Script: script}, "n", bcl.OptOutput(nil), bcl.OptLogger(nil))
		default:
			lr.Prog, lr.Err = bcl.LoadProg(&simio.SimReader{Data: data, Script: script, EndErr: errDisk}, "n", bcl.OptOutput(lr.Out), bcl.OptLogger(lr.Log))
		}
	}()
	select {
	case <-done:
	case <-time.After(20 * time.Second):
		c := sc.Clone()
		c.Class = "single"
		c.SetBlob("data", data)
		c.Reads = script
		c.SetInt("variant", variant)
		o.Evals++
		c13Hung[variant] = true
		o.viol("C13", "hang", sig+":load does not return", fmt.Sprintf("Load did not return within 20s on %s (%s)", what, c13VariantName[variant]), c)
		return
	}
	Beat()
	if overran {
		c := sc.Clone()
		c.Class = "single"
		c.SetBlob("data", data)
		c.Reads = script
		c.SetInt("variant", variant)
		o.Evals++
		o.viol("C13", "hang", sig+":load keeps reading a stream that does not end", fmt.Sprintf("LoadProg read more than %d bytes past %s before giving its verdict (with a pipe or socket that is a hang)", endlessLimit, what), c)
		return
	}
	c13Judge(sc, lr, data, script, what+" ("+c13VariantName[variant]+")", o, sig, map[string]int{"variant": variant})
}

// endlessReader delivers data and then zero bytes for ever; past endlessLimit it gives up with
// an error of its own (so that the call under test returns) and remembers that it had to.
type endlessReader struct {
	data    []byte
	off     int
	extra   int
	overrun bool
}

const endlessLimit = 8 << 20

func (e *endlessReader) Read(p []byte) (int, error) {
	if e.off < len(e.data) {
		n := copy(p, e.data[e.off:])
		e.off += n
		return n, nil
	}
	if e.extra > endlessLimit {
		e.overrun = true
		return 0, errDisk
	}
	for i := range p {
		p[i] = 0
	}
	e.extra += len(p)
	return len(p), nil
}

var c13VariantName = []string{"", "Load into a used Prog", "second Load into the same Prog", "reader ends with io.ErrUnexpectedEOF", "reader ends with an I/O error", "file-like reader (Read, Close, Name)",
	"caller-owned *bufio.Reader: retried, then reset and used again after an unrelated load", "Load on a zero-value Prog", "LoadProg with nil output and log writers", "stream that does not end behind the bytes",
	"file whose Stat reports the length it had before the write was interrupted", "reader whose Size reports more than it delivers", "pipe (Stat: size 0, not a regular file)", "reader with a truthful Len",
	"LoadProg with OptDisasm, OptTrace and OptStats"}

var c13Hung = map[int]bool{}

var c13SmallDump []byte

// c13Small is a small complete dump (for the unrelated load in variant 6).
func c13Small() []byte {
	if c13SmallDump == nil {
		m := ParseMem([]byte("print 1\n"), "small", 0)
		c13SmallDump, _, _ = DumpProg(m.Prog)
	}
	return c13SmallDump
}

// fileLike is a reader that also has Close and Name, like the *os.File cmd/bcl hands to LoadProg.
type fileLike struct {
	simio.SimReader
	closes int
}

func (f *fileLike) Close() error { f.closes++; return nil }
func (f *fileLike) Name() string { return "dump.bcb" }

var errDisk = errors.New("simio: read failed (EIO)")

func c13Judge(sc *Scenario, lr *loadResult, data []byte, script []simio.ReadStep, what string, o *Outcome, sig string, extra map[string]int) {
	o.Evals++
	concrete := func() *Scenario {
		c := sc.Clone()
		c.Class = "single"
		c.SetBlob("data", data)
		c.Reads = script
		for k, v := range extra {
			c.SetInt(k, v)
		}
		return c
	}
	switch {
	case lr.Panic != "":
		o.viol("C13", "panic", sig+":"+normSig(lr.Panic), fmt.Sprintf("LoadProg panicked on %s: %s", what, lr.Panic), concrete())
	case lr.Err == nil:
		o.viol("C13", "accepted", sig+":no error", fmt.Sprintf("LoadProg returned a nil error for %s", what), concrete())
	}
}

func (c13) Run(t *testing.T, sc *Scenario) *Outcome {
	o := &Outcome{}
	if sc.Class == "single" {
		if v := sc.Int("variant", 0); v > 0 {
			c13LoadVariant(sc, sc.Blobs["data"], sc.Reads, "the stored bytes of the replay file", o, sc.Str("sigclass"), v)
		} else {
			c13LoadOpt(sc, sc.Blobs["data"], sc.Reads, "the stored bytes of the replay file", o, sc.Str("sigclass"), sc.Int("disasm", 0) == 1)
		}
		o.Nontrivial = true
		return o
	}
	mem := ParseMem(sc.Src, sc.Name, 0)
	if mem.Panic != "" || mem.Err != nil {
		o.Skipped = true
		return o
	}
	full, derr, dpanic := DumpProg(mem.Prog)
	if derr != "" || dpanic != "" {
		o.Skipped = true // C09 reports this
		o.probe("dump_failed", 1)
		return o
	}
	r := prng.New(uint64(sc.Int("pseed", 1)), "c13")
	h := hash64(string(full))
	o.Hash = h
	switch sc.Class {
	case "magic-sweep":
		sc.SetStr("sigclass", "magic")
		for m := 0; m < 65536; m++ {
			if m == 0xFC6C {
				continue
			}
			data := append([]byte{byte(m >> 8), byte(m)}, full[2:]...)
			c13Load(sc, data, nil, fmt.Sprintf("a dump whose magic is %04X", m), o, "magic")
			if m%509 == 0 {
				c13LoadVariant(sc, data[:4], nil, fmt.Sprintf("a header whose magic is %04X", m), o, "magic", 9)
			}
			if m%251 == 0 {
				c13LoadVariant(sc, data, nil, fmt.Sprintf("a dump whose magic is %04X", m), o, "magic", 14)
			}
			if len(o.Violations) > 0 {
				break
			}
		}
		o.fault("bad_magic", o.Evals)
		o.Nontrivial = true
		o.probe("magic_sweeps", 1)
	case "version-sweep":
		sc.SetStr("sigclass", "version")
		for v := 0; v < 65536; v++ {
			if v == 0x0100 || v == 0x0101 {
				continue
			}
			data := append([]byte{}, full...)
			data[2], data[3] = byte(v>>8), byte(v)
			c13Load(sc, data, nil, fmt.Sprintf("a dump declaring version %d.%d", v>>8, v&0xff), o, "version")
			if v%509 == 0 {
				c13LoadVariant(sc, data[:4], nil, fmt.Sprintf("a header declaring version %d.%d", v>>8, v&0xff), o, "version", 9)
			}
			if v%251 == 0 {
				c13LoadVariant(sc, data, nil, fmt.Sprintf("a dump declaring version %d.%d", v>>8, v&0xff), o, "version", 14)
			}
			if len(o.Violations) > 0 {
				break
			}
		}
		o.fault("bad_version", o.Evals)
		o.Nontrivial = true
		o.probe("version_sweeps", 1)
	default: // "cuts", "cuts-big"
		sc.SetStr("sigclass", "prefix")
		if len(full) > 4096 {
			o.probe("dump_beyond_4096", 1)
		}
		stride := sc.Int("stride", 1)
		for k := 0; k < len(full); k++ {
			if stride > 1 && k%stride != 0 && k < len(full)-600 {
				continue // dumps of hundreds of KiB: every stride-th cut plus every cut of the last 600 bytes
			}
			// crash the write at byte k
			disk := &simio.SimDisk{FailAt: k}
			func() {
				defer func() { recover() }() // Dump's own behaviour on a failing disk is recorded, not judged
				mem.Prog.Dump(disk)
			}()
			if !bytes.Equal(disk.Buf, full[:k]) {
				// the simulated disk keeps exactly k bytes of whatever was written; if what was
				// written is not a prefix of the full dump, Dump is not deterministic (C16)
				o.probe("torn_prefix_differs", 1)
				disk.Buf = append([]byte{}, full[:k]...)
			}
			if disk.Torn {
				o.fault("torn_write", 1)
			}
			torn := disk.Buf
			what := fmt.Sprintf("the first %d of %d bytes of a dump", k, len(full))
			c13Load(sc, torn, nil, what+" (all at once)", o, "prefix")
			if k <= 1500 || (k%61 == 0 && k <= 12000) {
				c13Load(sc, torn, MakeReads(r, k, "bytewise", nil), what+" (one byte per read)", o, "prefix")
			}
			part := "geometric"
			if k > 3000 {
				part = "page" // thousands of cuts of a large dump: pages (with zero reads and data+EOF), not 2-byte reads
			}
			script := MarkEOF(WithZeros(r, MakeReads(r, k, part, nil), 1), k)
			// the options LoadProg takes are part of the call: the listing must not be attempted on a failed load
			c13LoadOpt(sc, torn, script, what+" (seeded partition, zero reads, data+EOF)", o, "prefix", k%2 == 1)
			if k%3 == 0 || k > len(full)-40 {
				v := 1 + (k/3)%13
				if v >= 9 {
					v++ // 9 (the stream that does not end) is tried on headers only
					sc.SetInt("fulllen", len(full))
				}
				c13LoadVariant(sc, torn, nil, what, o, "prefix", v)
			}
			if len(o.Violations) > 0 {
				break
			}
		}
		o.fault("truncate", len(full))
		o.Nontrivial = len(full) > 1
		o.probe("programs_cut", 1)
	}
	return o
}
