package sim

import (
	"bytes"
	"fmt"
	"strings"
	"testing"

	"github.com/wkhere/bcl"

	"verifharness/bcfmt"
	"verifharness/gen"
	"verifharness/prng"
	"verifharness/simio"
)

// C09: bytecode dump and load round trip preserves the program.
type c09 struct{}

func init() { register(c09{}) }

func (c09) ID() string { return "C09" }
func (c09) Rule() string {
	return "one evaluation = one accepted program dumped by the real Dump and re-loaded by the real LoadProg through a simulated reader with a seeded read partition (all at once, one byte per read, fixed, geometric, cuts at section/varint/string boundaries found by the independent decoder, 4096+-1, zero-byte reads, data+EOF; 'allcuts' enumerates every single cut of small dumps); " +
		"oracle: no error/panic, dump(load(dump)) identical, identical disassembly, identical execution (output, warnings, blocks, binding, runtime error with position); " +
		"non-trivial iff the dump was delivered in >=2 reads; distinct = distinct (dump hash, partition) pairs"
}

// genAccepted generates a program meant to be accepted, with the size tail
// of DESIGN.md C09 switched on when long is set.
func genAccepted(r *prng.R, long bool, tier string) *gen.Prog {
	cfg := gen.DefaultCfg(r)
	cfg.LongTail = long
	if long {
		cfg.Stmts = r.Range(1, 10)
		if r.Chance(1, 3) && tier != "small" {
			cfg.LongSizes = []int{67822, 67823, 67824, 67825}
			if tier != "thorough" && !r.Chance(1, 5) {
				cfg.LongSizes = nil
			}
		}
	}
	switch r.Intn(8) {
	case 0:
		cfg.Pad = r.Range(200, 300)
	case 1:
		cfg.Pad = r.Range(2200, 2400)
	case 2:
		cfg.Pad = r.Range(4000, 4200)
	case 3:
		if tier == "thorough" || (r.Chance(1, 4) && tier != "small") {
			cfg.Pad = r.Range(67700, 68000)
		}
	}
	return gen.Generate(r, cfg)
}

func progName(r *prng.R) string {
	switch r.Intn(8) {
	case 0:
		return ""
	case 1:
		return strings.Repeat("n", prng.Pick(r, []int{1, 95, 96, 97, 240, 241, 2287, 2288, 4095, 4096, 4097, 5000}))
	case 2:
		return "dir/é→.bcl"
	case 3:
		if r.Chance(1, 6) {
			return strings.Repeat("N", prng.Pick(r, []int{65535, 65536, 65537, 67823, 67824, 70000}))
		}
	}
	return "f.bcl"
}

// c09HugeTerms: terms of a flat sum; each compiles to 2 bytes of code.
var c09HugeTerms = []int{1100000, 560000, 1600000}

func (c09) Gen(seed uint64, idx int, tier string) *Scenario {
	r := prng.New(seed, "C09", idx)
	sc := &Scenario{Prop: "C09", Seed: seed, Idx: idx}
	long := r.Chance(1, 3)
	p := genAccepted(r, long, tier)
	if r.Chance(1, 6) {
		// more than 240 constants or locals: multi-byte operands, also right at the end of the code (POPN before RET)
		gen.AddWide(r, p, r.Range(236, 300), r.Chance(1, 2))
		p.Layout(r, gen.DefaultCfg(r))
	}
	sc.Src = p.Src
	sc.Class = "plain"
	if long {
		sc.Class = "long"
	}
	if r.Chance(1, 40) {
		// programs at the compiler's own limits are accepted programs too (1024 locals, deep nesting, many blocks)
		sc.Src = gen.LimitProgram(r, prng.Pick(r, []string{"locals", "blocklocals", "blocks", "manyblocks", "rightnest", "deepblocks-vars", "manyconsts", "negchain", "notchain", "flatchain", "parens"}), false)
		sc.Class = "limit"
	}
	if idx < len(c09HugeTerms) {
		// "all magnitudes of code size": code sections beyond 1 and 2 MiB, once per batch
		sc.Src = []byte("print 1" + strings.Repeat("+1", c09HugeTerms[idx]) + "\n")
		sc.Class = "hugecode"
	}
	if r.Chance(1, 60) {
		// accepted programs with next to nothing in them: no byte at all, blanks only, a comment
		// only, line feeds only (the line table starts at offset 0), one statement without a line end
		sc.Src = []byte(prng.Pick(r, []string{"", " ", "\n", "\n\n\n", "# only a comment", "# c\n", "\t\r\n", ";", "print 1", "\nprint 1/0", "\n\ndef a {}\nbind a -> struct\nbind a -> struct"}))
		sc.Class = "tiny"
	}
	sc.Name = progName(r)
	sc.SetStr("partition", prng.Pick(r, []string{"whole", "bytewise", "fixed", "geometric", "twocut", "boundaries", "page", "zeros", "eofdata", "allcuts", "boundaries"}))
	sc.SetInt("pseed", r.Intn(1<<30))
	return sc
}

// dumpScript builds the read script for a dump according to the scenario.
func dumpScript(r *prng.R, kind string, dump []byte, f *bcfmt.File) []simio.ReadStep {
	n := len(dump)
	switch kind {
	case "boundaries":
		if f == nil || len(f.Boundaries) == 0 {
			return MakeReads(r, n, "geometric", nil)
		}
		set := map[int]bool{}
		for i := r.Range(1, 8); i > 0; i-- {
			b := prng.Pick(r, f.Boundaries) + r.Range(-1, 1)
			if b > 0 && b < n {
				set[b] = true
			}
		}
		for _, s := range f.Sections {
			if r.Chance(1, 3) && s > 0 && s < n {
				set[s] = true
			}
		}
		var cuts []int
		for c := range set {
			cuts = append(cuts, c)
		}
		sortInts(cuts)
		return CutsToReads(cuts)
	case "page":
		k := 4096 + r.Range(-1, 1)
		var out []simio.ReadStep
		for i := 0; i < n; i += k {
			out = append(out, simio.ReadStep{N: k})
		}
		return out
	case "zeros":
		return WithZeros(r, MakeReads(r, n, prng.Pick(r, []string{"geometric", "fixed", "whole"}), nil), r.Range(1, 3))
	case "eofdata":
		return MarkEOF(MakeReads(r, n, prng.Pick(r, []string{"geometric", "fixed", "whole"}), nil), n)
	case "bytewise":
		if n > 20000 {
			return MakeReads(r, n, "geometric", nil)
		}
	}
	return MakeReads(r, n, kind, nil)
}

// loadResult is one LoadProg call under recover.
type loadResult struct {
	Prog    *bcl.Prog
	Err     error
	Panic   string
	Out     *bytes.Buffer
	Log     *bytes.Buffer
	Listing string
	Reads   int
}

func loadVia(data []byte, script []simio.ReadStep, name string, disasm bool) *loadResult {
	return loadInto(data, script, name, disasm, false, rkPlain)
}

// loadInto loads through LoadProg, or (used) through the Load method of a Prog that held
// another program before; the listing is then produced by a second, fresh load of the re-dump
// being compared anyway, so it is left empty.
func loadInto(data []byte, script []simio.ReadStep, name string, disasm, used bool, rkind int) *loadResult {
	lr := &loadResult{Out: &bytes.Buffer{}, Log: &bytes.Buffer{}}
	rd0 := &simio.SimReader{Data: data, Script: script}
	rd := readerOfKind(rd0, rkind, len(data)+1+len(data)%977)
	func() {
		defer func() {
			if x := recover(); x != nil {
				lr.Panic = panicSig(x)
			}
		}()
		if used {
			lr.Prog, lr.Err = bcl.Parse([]byte("# another\n# program\ndef t \"x\" { f = 1 }\n\nprint \"earlier\"\nbind t -> struct\n"), "earlier.bcl", bcl.OptOutput(lr.Out), bcl.OptLogger(lr.Log))
			if lr.Err == nil {
				lr.Err = lr.Prog.Load(rd)
			}
			return
		}
		lr.Prog, lr.Err = bcl.LoadProg(rd, name, bcl.OptOutput(lr.Out), bcl.OptLogger(lr.Log), bcl.OptDisasm(disasm))
	}()
	lr.Listing = lr.Out.String()
	lr.Reads = len(rd0.Ends)
	Beat()
	return lr
}

// c09Check loads dump under one script and compares with the original.
func c09Check(sc *Scenario, script []simio.ReadStep, dump []byte, listing string, ex1 *ExecResult, o *Outcome) (reads int) {
	concrete := func() *Scenario {
		c := sc.Clone()
		c.Reads = script
		c.SetStr("partition", "script")
		return c
	}
	used := (len(dump)+len(script))%5 == 0
	// every other load goes through a reader that also has Stat, Len or Size (readerkinds.go):
	// whatever those say, the bytes are complete and must load
	rkind := rkPlain
	if k := (len(dump)*7 + len(script)*3) % (2 * rkCount); k < rkCount {
		rkind = k
	}
	lr := loadInto(dump, script, "other-name", true, used, rkind)
	if used {
		o.probe("loaded_into_used_prog", 1)
	}
	if rkind != rkPlain {
		o.fault("reader_kind:"+readerKindName[rkind], 1)
	}
	if lr.Panic != "" {
		o.viol("C09", "panic", "load:"+normSig(lr.Panic), "LoadProg panicked on a complete dump: "+lr.Panic, concrete())
		return lr.Reads
	}
	if lr.Err != nil {
		o.viol("C09", "load-error", normSig(lr.Err.Error()), fmt.Sprintf("LoadProg refused a complete dump of %d bytes delivered in %d reads by a %s: %v", len(dump), lr.Reads, readerKindName[rkind], lr.Err), concrete())
		return lr.Reads
	}
	d2, derr, dpanic := DumpProg(lr.Prog)
	if derr != "" || dpanic != "" {
		o.viol("C09", "redump", "dump of the loaded program fails", derr+dpanic, concrete())
		return lr.Reads
	}
	if !bytes.Equal(d2, dump) {
		o.viol("C09", "redump", "dump of the loaded program differs", firstDiff(d2, dump), concrete())
	}
	if !used && lr.Listing != listing {
		o.viol("C09", "listing", "disassembly of the loaded program differs",
			fmt.Sprintf("original:\n%s\nloaded:\n%s", short(listing, 400), short(lr.Listing, 400)), concrete())
	}
	if ex1 != nil {
		ex2 := Exec(lr.Prog, lr.Out, lr.Log, 0)
		if ex2.Panic != "" && ex1.Panic == "" {
			o.viol("C09", "panic", "exec-loaded:"+normSig(ex2.Panic), "executing the loaded program panicked: "+ex2.Panic, concrete())
		} else if ex2.Digest() != ex1.Digest() {
			o.viol("C09", "execution", "loaded program behaves differently", describeExecDiff(ex1, ex2), concrete())
		}
	}
	return lr.Reads
}

func describeExecDiff(a, b *ExecResult) string {
	var parts []string
	cmp := func(name, x, y string) {
		if x != y {
			parts = append(parts, fmt.Sprintf("%s: %q vs %q", name, short(x, 200), short(y, 200)))
		}
	}
	cmp("output", a.Out, b.Out)
	cmp("log", a.Log, b.Log)
	cmp("blocks", a.Blocks, b.Blocks)
	cmp("binding", a.Binding, b.Binding)
	cmp("error", a.Err, b.Err)
	cmp("panic", a.Panic, b.Panic)
	return strings.Join(parts, "; ")
}

func (c09) Run(t *testing.T, sc *Scenario) *Outcome {
	o := &Outcome{}
	mem := ParseMem(sc.Src, sc.Name, OptDisasm)
	if mem.Panic != "" || mem.Err != nil {
		o.Skipped = true
		o.probe("not_accepted", 1)
		return o
	}
	listing := mem.Out
	dump, derr, dpanic := DumpProg(mem.Prog)
	if dpanic != "" {
		o.viol("C09", "panic", "dump:"+normSig(dpanic), "Dump panicked on an accepted program: "+dpanic, sc)
		return o
	}
	if derr != "" {
		o.viol("C09", "dump-error", normSig(derr), "Dump failed on an accepted program: "+derr, sc)
		return o
	}
	ex1 := Exec(mem.Prog, mem.OutBuf, mem.LogBuf, 0)
	if ex1.Panic != "" {
		ex1 = nil // C06's finding; the remaining comparisons still apply
		o.probe("exec_panics", 1)
	}
	f, ferr := bcfmt.Decode(dump)
	if ferr != nil {
		f = nil
		o.probe("independent_decoder_rejects", 1) // reported by C14
	} else {
		classes := map[int]bool{}
		for _, c := range f.Consts {
			if c.Type == bcfmt.TStr {
				classes[len(bcfmt.PutUvarint(uint64(len(c.S))))] = true
			}
		}
		for k := range classes {
			o.probe(fmt.Sprintf("string_len_varint_%dB", k), 1)
		}
		if len(f.Positions) > 0 {
			o.probe(fmt.Sprintf("position_varint_%dB", len(bcfmt.PutUvarint(f.Positions[len(f.Positions)-1]))), 1)
		}
	}
	r := prng.New(uint64(sc.Int("pseed", 1)), "c09part")
	kind := sc.Str("partition")
	h := hash64(string(dump))
	switch {
	case kind == "script":
		n := c09Check(sc, sc.Reads, dump, listing, ex1, o)
		o.Nontrivial = n >= 2
		o.Hash = h ^ 0x5C
	case kind == "allcuts" && len(dump) <= 512:
		multi := 0
		for c := 0; c <= len(dump); c++ {
			script := []simio.ReadStep{{N: c}}
			if c == 0 {
				script = nil
			}
			if c09Check(sc, script, dump, listing, ex1, o) >= 2 {
				multi++
			}
			o.Evals++
			if len(o.Violations) > 0 {
				break
			}
		}
		o.Nontrivial = multi > 0
		o.Hash = h ^ 0xA11
	default:
		if kind == "allcuts" {
			kind = "geometric"
		}
		script := dumpScript(r, kind, dump, f)
		n := c09Check(sc, script, dump, listing, ex1, o)
		o.Nontrivial = n >= 2
		for _, s := range script {
			h = h*1099511628211 ^ uint64(s.N)
			if s.Zero {
				h ^= 0x77
				o.fault("zero_read", 1)
			}
		}
		if kind == "eofdata" {
			o.fault("eof_with_data", 1)
		}
		if n >= 2 {
			o.fault("short_read", n)
		}
		o.Hash = h
	}
	return o
}
