package sim

import (
	"errors"
	"io"
	"io/fs"
	"time"

	"verifharness/simio"
)

// Reader kinds: the same stored bytes handed to the loader by readers that also have one of
// the optional methods real readers have - Stat (an *os.File, an fs.File), Len (bytes.Reader,
// but also a receive queue that reports what has arrived so far), Size (bytes.Reader,
// io.SectionReader). io.Reader promises nothing about them; whatever they say, a complete
// dump must load and a truncated one must be refused. What they report is what the real
// things report in situations a deployment meets: a pipe or a /proc file (size 0), a file
// that grew or was cut and rewritten between Stat and the reads, a queue holding only the
// packet that has arrived.
const (
	rkPlain       = iota
	rkStatTrue    // regular file, true size
	rkStatPipe    // named pipe, size 0
	rkStatZero    // regular file reporting size 0 (procfs-like)
	rkStatSmaller // regular file, size smaller than what the reads deliver (it grew)
	rkStatLarger  // regular file, size larger than what the reads deliver (cut after Stat)
	rkStatErr     // Stat fails
	rkLenArrived  // Len() = what has arrived and not been read yet (never more than the next read delivers)
	rkLenTrue     // Len() = bytes until the end
	rkSizeZero    // Size() = 0
	rkSizeLarger  // Size() larger than what is there
	rkSizeTrue    // Size() = total length, whatever has been read (bytes.Reader)
	rkCount
)

var readerKindName = []string{"plain reader", "reader with Stat (regular file, true size)", "reader with Stat (pipe, size 0)",
	"reader with Stat (regular file reporting size 0)", "reader with Stat (file grew: size smaller than the data)",
	"reader with Stat (file cut after Stat: size larger than the data)", "reader whose Stat fails",
	"reader with Len = bytes arrived so far", "reader with Len = bytes left", "reader with Size 0",
	"reader with Size larger than the data", "reader with Size = total length"}

type rkInfo struct {
	size int64
	mode fs.FileMode
}

func (i rkInfo) Name() string       { return "dump.bcb" }
func (i rkInfo) Size() int64        { return i.size }
func (i rkInfo) Mode() fs.FileMode  { return i.mode }
func (i rkInfo) ModTime() time.Time { return time.Time{} }
func (i rkInfo) IsDir() bool        { return false }
func (i rkInfo) Sys() any           { return nil }

type statReader struct {
	*simio.SimReader
	info rkInfo
	err  error
}

func (s statReader) Stat() (fs.FileInfo, error) {
	if s.err != nil {
		return nil, s.err
	}
	return s.info, nil
}

type lenReader struct {
	*simio.SimReader
	arrived bool
}

func (l lenReader) Len() int {
	left := l.SimReader.Left()
	if !l.arrived {
		return left
	}
	n := l.SimReader.NextN()
	if n <= 0 || n > left {
		n = left
	}
	if n > 1400 {
		n = 1400
	}
	return n
}

type sizeReader struct {
	*simio.SimReader
	size int64
}

func (s sizeReader) Size() int64 { return s.size }

var errStat = errors.New("simio: stat failed")

// readerOfKind wraps rd. larger is the size reported by the over-reporting kinds.
func readerOfKind(rd *simio.SimReader, kind int, larger int) io.Reader {
	n := int64(len(rd.Data))
	switch kind {
	case rkStatTrue:
		return statReader{rd, rkInfo{n, 0o644}, nil}
	case rkStatPipe:
		return statReader{rd, rkInfo{0, fs.ModeNamedPipe | 0o600}, nil}
	case rkStatZero:
		return statReader{rd, rkInfo{0, 0o444}, nil}
	case rkStatSmaller:
		return statReader{rd, rkInfo{n / 2, 0o644}, nil}
	case rkStatLarger:
		return statReader{rd, rkInfo{int64(larger), 0o644}, nil}
	case rkStatErr:
		return statReader{rd, rkInfo{}, errStat}
	case rkLenArrived:
		return lenReader{rd, true}
	case rkLenTrue:
		return lenReader{rd, false}
	case rkSizeZero:
		return sizeReader{rd, 0}
	case rkSizeLarger:
		return sizeReader{rd, int64(larger)}
	case rkSizeTrue:
		return sizeReader{rd, n}
	}
	return rd
}
