package sim

import (
	"bytes"
	"testing"

	"verifharness/simio"
)

// hasSig reports whether running sc yields a violation with the signature.
func hasSig(t *testing.T, p Property, sc *Scenario, sig string) bool {
	o := p.Run(t, sc)
	for _, v := range o.Violations {
		if v.Sig == sig {
			return true
		}
	}
	return false
}

// Shrink minimises a violating scenario while the same (kind, signature)
// persists. check runs a candidate; it may run it in-process or in a child
// process (for violations that kill the process).
func Shrink(sc *Scenario, sig string, budget int, check func(*Scenario) bool) *Scenario {
	cur := sc.Clone()
	runs := 0
	try := func(c *Scenario) bool {
		if runs >= budget {
			return false
		}
		runs++
		if check(c) {
			cur = c
			return true
		}
		return false
	}
	offsetBound := len(cur.TokEnds) > 0 || len(cur.Plants) > 0
	for _, k := range []string{"lexat", "cut", "plantoff"} {
		if _, ok := cur.Ints[k]; ok {
			offsetBound = true
		}
	}
	for pass := 0; pass < 3 && runs < budget; pass++ {
		before := runs
		changed := false
		// 1. schedule: FIFO
		if cur.Replay && len(cur.Choices) > 0 {
			c := cur.Clone()
			c.Choices = nil
			c.Replay = true
			if try(c) {
				changed = true
			} else {
				// zero a suffix, then a prefix
				for n := len(cur.Choices) / 2; n >= 1; n /= 2 {
					c := cur.Clone()
					for i := len(c.Choices) - n; i < len(c.Choices); i++ {
						c.Choices[i] = 0
					}
					if !eqInts(c.Choices, cur.Choices) && try(c) {
						changed = true
					}
				}
			}
		}
		// 2. knobs
		for _, f := range []func(*Scenario) bool{
			func(c *Scenario) bool { v := c.GateOut; c.GateOut = false; return v },
			func(c *Scenario) bool { v := c.GateLog; c.GateLog = false; return v },
			func(c *Scenario) bool { v := c.GateName; c.GateName = false; return v },
			func(c *Scenario) bool { v := c.GateClose; c.GateClose = false; return v },
			func(c *Scenario) bool { v := c.GateRead; c.GateRead = false; return v },
			func(c *Scenario) bool { v := c.Opts != 0; c.Opts = 0; return v },
			func(c *Scenario) bool { v := c.Fill != 0; c.Fill = 0; return v },
			func(c *Scenario) bool { v := c.Fill > 8192; c.Fill = 8192; return v },
			func(c *Scenario) bool { v := c.API != "" && c.API != "ParseFile"; c.API = "ParseFile"; return v },
		} {
			c := cur.Clone()
			if f(c) && try(c) {
				changed = true
			}
		}
		// 3. scripts
		if len(cur.Reads) > 0 {
			c := cur.Clone()
			c.Reads = nil
			if try(c) {
				changed = true
			}
		}
		for i := 0; i < len(cur.Reads) && runs < budget; i++ {
			if len(cur.Reads) > 40 && i%(len(cur.Reads)/40+1) != 0 {
				continue
			}
			c := cur.Clone()
			c.Reads = append(c.Reads[:i:i], c.Reads[i+1:]...)
			if try(c) {
				changed = true
				i--
				continue
			}
			if cur.Reads[i].EOF {
				c := cur.Clone()
				c.Reads[i].EOF = false
				if try(c) {
					changed = true
				}
			}
		}
		if len(cur.Reads) > 1 {
			// merge everything after the first k steps into "rest of file"
			for k := 1; k < len(cur.Reads) && k <= 8; k++ {
				c := cur.Clone()
				c.Reads = c.Reads[:k]
				if try(c) {
					changed = true
					break
				}
			}
		}
		// 4. source
		if !offsetBound && len(cur.Src) > 0 {
			if shrinkSrc(&cur, try, &runs, budget) {
				changed = true
			}
		}
		if !changed || runs == before {
			break
		}
	}
	return cur
}

func eqInts(a, b []int) bool {
	if len(a) != len(b) {
		return false
	}
	for i := range a {
		if a[i] != b[i] {
			return false
		}
	}
	return true
}

func shrinkSrc(cur **Scenario, try func(*Scenario) bool, runs *int, budget int) bool {
	changed := false
	// lines first
	lines := bytes.SplitAfter((*cur).Src, []byte("\n"))
	for n := len(lines) / 2; n >= 1 && *runs < budget; n /= 2 {
		for i := 0; i+n <= len(lines) && *runs < budget; {
			cand := append(append([][]byte{}, lines[:i]...), lines[i+n:]...)
			c := (*cur).Clone()
			c.Src = bytes.Join(cand, nil)
			if try(c) {
				lines = cand
				changed = true
			} else {
				i += n
			}
		}
	}
	// then byte chunks
	src := (*cur).Src
	for n := len(src) / 2; n >= 1 && *runs < budget; n /= 2 {
		for i := 0; i+n <= len(src) && *runs < budget; {
			cand := append(append([]byte{}, src[:i]...), src[i+n:]...)
			c := (*cur).Clone()
			c.Src = cand
			if try(c) {
				src = cand
				changed = true
			} else {
				i += n
			}
		}
		if len(src) > 400 && n < len(src)/16 {
			break
		}
	}
	return changed
}

var _ = simio.OFile
