package sim

import (
	"bytes"
	"errors"
	"fmt"
	"io"
	"regexp"
	"strconv"
	"strings"
	"testing"

	"github.com/wkhere/bcl"

	"verifharness/bcfmt"
	"verifharness/gen"
	"verifharness/prng"
)

// C19: introspection options only observe.
type c19 struct{}

func init() { register(c19{}) }

func (c19) ID() string { return "C19" }
func (c19) Rule() string {
	return "one run = one program (accepted, rejected, or failing at run time) executed under ALL 8 combinations of OptDisasm/OptTrace/OptStats, in memory (Parse then Execute) and through the simulated file pipeline (InterpretFile in a bubble with a seeded partition and gate schedule, the same schedule seed for all 8); " +
		"oracle: blocks, binding, error text and log text identical across the 8 settings, no panic; program lines = output with the four extra line formats removed; listing offsets/mnemonics = instruction list of the independent decoder; trace instruction lines = xstats.opsRead and follow the decoder's successor relation; " +
		"non-trivial iff the program was accepted (so that listing, trace and statistics exist); distinct = distinct source hashes"
}

func (c19) Gen(seed uint64, idx int, tier string) *Scenario {
	r := prng.New(seed, "C19", idx)
	sc := &Scenario{Prop: "C19", Seed: seed, Idx: idx}
	cfg := gen.DefaultCfg(r)
	cfg.PrintHeavy = r.Chance(1, 2)
	cfg.Stmts = r.Range(1, 20)
	class := prng.Pick(r, []string{"valid", "valid", "valid", "runtime-error", "syntax-late", "lex-late", "soup"})
	sc.Class = class
	cfg.Safe = class != "runtime-error"
	cfg.NoNL = true
	if r.Chance(1, 6) {
		cfg.LongTail = true // strings and identifiers of 94..5000 bytes
		cfg.LongSizes = []int{63, 64, 65, 94, 97, 240, 241, 300, 1000, 4097}
	}
	p := gen.Generate(r, cfg)
	if class == "valid" && (r.Chance(1, 300) || (tier == "thorough" && r.Chance(1, 60))) {
		// a run of more than 65536 instructions: counters and offsets beyond 16 bits
		var sb strings.Builder
		n := r.Range(32800, 34000)
		for i := 0; i < n; i++ {
			sb.WriteString("eval 1\n")
		}
		sb.WriteString("print 7\n")
		p = &gen.Prog{Src: []byte(sb.String())}
		sc.Class = "long-run"
	} else if class == "runtime-error" && (r.Chance(1, 150) || (tier == "thorough" && r.Chance(1, 30))) {
		// the one runtime error that is raised after the instruction's switch: a full operand stack
		p = &gen.Prog{Src: gen.LimitProgram(r, prng.Pick(r, []string{"locals", "fieldtemps", "rightnest"}), false)}
		sc.Class = "stack-overflow"
	} else if class == "valid" && r.Chance(1, 5) {
		// many locals: slot numbers and POPN counts that need multi-byte operands
		p = manyLocals(r, cfg)
	}
	switch class {
	case "runtime-error":
		if len(p.Toks) > 0 {
			gen.AddPlant(r, p, prng.Pick(r, gen.RuntimePlants), cfg)
		}
		sc.Src = p.Src
	case "syntax-late":
		sc.Src = gen.WithSyntaxErr(r, p, false)
	case "lex-late":
		sc.Src, _ = gen.WithLexFail(r, p, false)
	case "soup":
		// line-oriented oracle: no string constant may denote a line break (cfg.NoNL for the
		// generated classes); the soup vocabulary has one such literal
		sc.Src = bytes.ReplaceAll(gen.TokenSoup(r, r.Range(1, 40)), []byte(`\n`), []byte(`\t`))
	default:
		if r.Chance(1, 4) && len(p.Toks) > 0 {
			gen.AddPlant(r, p, "warn.rebind", cfg)
		}
		sc.Src = p.Src
	}
	sc.Name = prng.Pick(r, []string{"f.bcl", "", "x/y.bcl"})
	sc.API = "InterpretFile"
	kind := prng.Pick(r, []string{"whole", "geometric", "fixed", "token", "zeros", "eofdata"})
	sc.Reads = MakeReads(r, len(sc.Src), kind, p)
	if kind == "zeros" {
		sc.Reads = WithZeros(r, sc.Reads, 2)
	}
	if kind == "eofdata" {
		sc.Reads = MarkEOF(sc.Reads, len(sc.Src))
	}
	if r.Chance(1, 2) {
		sc.GateRead = true
		sc.GateClose = r.Chance(1, 2)
		sc.GateLog = r.Chance(1, 2)
		sc.GateOut = r.Chance(1, 3)
		sc.Bias = prng.Pick(r, Biases)
	}
	if sc.Class == "long-run" {
		// hundreds of KiB: real pages, no gates (the point of this class is the length of the run)
		sc.Reads = nil
		sc.GateRead, sc.GateClose, sc.GateLog = false, false, false
	}
	if len(sc.Src) > 1500 {
		// the trace prints the whole stack before every instruction, one write per value:
		// keep big programs off the output gate so that runs stay within the step bound
		sc.GateOut = false
	}
	return sc
}

// manyLocals builds a program with 236..330 live variables that are read,
// assigned and popped, so that slot operands cross the 1-byte varint range.
func manyLocals(r *prng.R, cfg gen.Cfg) *gen.Prog {
	n := r.Range(236, 330)
	var sb strings.Builder
	inBlock := r.Chance(1, 2)
	if inBlock {
		sb.WriteString("def t {\n")
	}
	for i := 0; i < n; i++ {
		fmt.Fprintf(&sb, "var v%d = %d\n", i, i)
	}
	for k := 0; k < 6; k++ {
		a, b := r.Intn(n), n-1-r.Intn(12)
		fmt.Fprintf(&sb, "print v%d + v%d\neval v%d = v%d * 2\n", a, b, b, a)
	}
	if inBlock {
		fmt.Fprintf(&sb, "f = v%d\n}\n", n-1)
	}
	return &gen.Prog{Src: []byte(sb.String())}
}

var (
	reHdrLine   = regexp.MustCompile(`^== .* ==$`)
	reInstrLine = regexp.MustCompile(`^(\d{4,}) +(\||\d+:\d+) +([A-Z]+)\b.*$`)
	reStackLine = regexp.MustCompile(`^ {13}\d+: (\[ .* \])*$`)
	reStatsLine = regexp.MustCompile(`^(pstats|xstats)\.\w+: *-?\d+$`)
)

// programLines removes the four extra line formats from an output text.
func programLines(out string) (prog []string, instr [][]string, stacks int, stats map[string]int) {
	stats = map[string]int{}
	lines := strings.Split(out, "\n")
	if len(lines) > 0 && lines[len(lines)-1] == "" {
		lines = lines[:len(lines)-1]
	}
	for _, l := range lines {
		switch {
		case reHdrLine.MatchString(l):
		case reInstrLine.MatchString(l):
			instr = append(instr, reInstrLine.FindStringSubmatch(l))
		case reStackLine.MatchString(l):
			stacks++
		case reStatsLine.MatchString(l):
			kv := strings.SplitN(l, ":", 2)
			n, _ := strconv.Atoi(strings.TrimSpace(kv[1]))
			stats[kv[0]] = n
		default:
			prog = append(prog, l)
		}
	}
	return
}

// fnWriter and teeWriter are writers whose dynamic types cannot be compared with ==.
type fnWriter func(p []byte) (int, error)

func (f fnWriter) Write(p []byte) (int, error) { return f(p) }

type teeWriter struct{ ws []io.Writer }

func (t teeWriter) Write(p []byte) (int, error) {
	for _, w := range t.ws {
		w.Write(p)
	}
	return len(p), nil
}

// failWriter accepts limit bytes and then fails every write.
type failWriter struct {
	limit, n int
}

func (w *failWriter) Write(p []byte) (int, error) {
	if w.n+len(p) > w.limit {
		k := max(0, w.limit-w.n)
		w.n += k
		return k, errors.New("simio: output device full")
	}
	w.n += len(p)
	return len(p), nil
}

type optRun struct {
	parseOut, execOut, log string
	execLog                string // what the execution wrote to the Prog's own log writer
	execOutB, execLogB     string // what reached the writers given to Execute only
	blocks, binding, err   string
	parseErr               string
	panicText              string
	accepted               bool
	dump                   []byte
}

func (c19) Run(t *testing.T, sc *Scenario) *Outcome {
	o := &Outcome{}
	var runs [8]optRun
	// ---- in memory: Parse, then Execute, output kept apart
	for opt := 0; opt < 8; opt++ {
		r := &runs[opt]
		mem := ParseMem(sc.Src, sc.Name, opt)
		if mem.Panic != "" {
			r.panicText = "Parse: " + mem.Panic
			continue
		}
		r.parseOut, r.parseErr = mem.Out, mem.ErrText
		r.log = mem.Log
		if mem.Err != nil {
			r.err = mem.ErrText
			continue
		}
		r.accepted = true
		if d, e1, e2 := DumpProg(mem.Prog); e1 == "" && e2 == "" {
			r.dump = d
		}
		// Execute is given writers of its own: the program's lines and warnings belong to the
		// writers the Prog was created with, whatever the options
		var outB, logB bytes.Buffer
		o0, l0 := mem.OutBuf.Len(), mem.LogBuf.Len()
		ex := Exec(mem.Prog, &outB, &logB, opt)
		if ex.Panic != "" {
			r.panicText = "Execute: " + ex.Panic
			continue
		}
		r.execOut, r.blocks, r.binding, r.err = mem.OutBuf.String()[o0:], ex.Blocks, ex.Binding, ex.Err
		r.log += mem.LogBuf.String()[l0:]
		r.execLog = mem.LogBuf.String()[l0:]
		r.execOutB, r.execLogB = ex.Out, ex.Log
	}
	base := runs[0]
	if base.panicText != "" {
		o.Skipped = true // panics without any option are C06's finding
		return o
	}
	if base.dump != nil {
		// listing and trace show constants as they are: a constant with a line break in it makes
		// rows this oracle cannot tell from program output. Not a finding; such inputs are counted.
		if f, err := bcfmt.Decode(base.dump); err == nil {
			for _, c := range f.Consts {
				if c.Type == bcfmt.TStr && strings.ContainsAny(c.S, "\n\r") {
					o.Skipped = true
					o.probe("constant_with_line_break_skipped", 1)
					return o
				}
			}
		}
	}
	o.Nontrivial = base.accepted
	o.Hash = hash64(string(sc.Src))
	o.Evals = 16
	withOpt := func(opt int) *Scenario {
		c := sc.Clone()
		c.Opts = opt
		return c
	}
	baseProg, _, _, _ := programLines(base.execOut)
	for opt := 1; opt < 8; opt++ {
		r := runs[opt]
		name := optName(opt)
		if r.panicText != "" {
			o.viol("C19", "panic", "with options:"+normSig(r.panicText), fmt.Sprintf("with %s: %s (no panic without options)", name, r.panicText), withOpt(opt))
			continue
		}
		var diffs []string
		cmp := func(what, a, b string) {
			if a != b {
				diffs = append(diffs, fmt.Sprintf("%s: %q vs %q without options", what, short(a, 200), short(b, 200)))
			}
		}
		cmp("error", r.err, base.err)
		cmp("diagnostics/warnings", r.log, base.log)
		cmp("blocks", r.blocks, base.blocks)
		cmp("binding", r.binding, base.binding)
		if len(diffs) > 0 {
			o.viol("C19", "result-changed", "options change the result:"+strings.SplitN(diffs[0], ":", 2)[0], fmt.Sprintf("with %s: %s", name, strings.Join(diffs, "; ")), withOpt(opt))
			continue
		}
		prog, instr, stacks, stats := programLines(r.execOut)
		progB, instrB, stacksB, statsB := programLines(r.execOutB)
		if len(progB) > 0 || r.execLogB != base.execLogB {
			o.viol("C19", "output-changed", "program output moves to another writer under options",
				fmt.Sprintf("with %s the writers given to Execute received %q / %q (without options: %q / %q)", name, short(strings.Join(progB, "|"), 200), short(r.execLogB, 200), short(base.execOutB, 100), short(base.execLogB, 100)), withOpt(opt))
			continue
		}
		// listing, trace and statistics may go to either configured output writer
		instr = append(instr, instrB...)
		stacks += stacksB
		for k, v := range statsB {
			stats[k] = v
		}
		if strings.Join(prog, "\n") != strings.Join(baseProg, "\n") {
			o.viol("C19", "output-changed", "program lines differ under options",
				fmt.Sprintf("with %s the printed lines are %q, without options %q", name, short(strings.Join(prog, "|"), 300), short(strings.Join(baseProg, "|"), 300)), withOpt(opt))
			continue
		}
		pprog, pinstr, _, pstats := programLines(r.parseOut)
		if len(pprog) > 0 {
			o.viol("C19", "output-changed", "unexpected text on the output writer during parse", fmt.Sprintf("with %s: %q", name, short(strings.Join(pprog, "|"), 300)), withOpt(opt))
			continue
		}
		if opt&OptStats != 0 {
			if _, ok := pstats["pstats.tokens"]; !ok {
				o.viol("C19", "stats", "parse statistics missing", "with "+name, withOpt(opt))
			}
			if _, ok := stats["xstats.opsRead"]; r.accepted && !ok {
				o.viol("C19", "stats", "execution statistics missing", "with "+name, withOpt(opt))
			}
		} else if len(pstats)+len(stats) > 0 {
			o.viol("C19", "stats", "statistics printed although OptStats is off", "with "+name, withOpt(opt))
		}
		if !r.accepted {
			if len(pinstr) > 0 {
				o.viol("C19", "listing", "a listing is printed for a rejected program", "with "+name, withOpt(opt))
			}
			continue
		}
		// listing and trace against the independent decoder
		var ins []bcfmt.Instr
		if r.dump != nil {
			if f, err := bcfmt.Decode(r.dump); err == nil {
				ins, _ = bcfmt.Instructions(f.Code)
			}
		}
		if ins == nil {
			o.probe("no_decoded_instructions", 1)
			continue
		}
		at := map[int]bcfmt.Instr{}
		for _, in := range ins {
			at[in.Off] = in
		}
		if opt&OptDisasm != 0 {
			ok := len(pinstr) == len(ins)
			for i := 0; ok && i < len(ins); i++ {
				off, _ := strconv.Atoi(pinstr[i][1])
				ok = off == ins[i].Off && pinstr[i][3] == ins[i].Name()
			}
			if !ok {
				o.viol("C19", "listing", "listing does not list each instruction once at its offset",
					fmt.Sprintf("with %s: listing has %d rows, the program has %d instructions", name, len(pinstr), len(ins)), withOpt(opt))
			}
			o.probe("listings_checked", 1)
		} else if len(pinstr) > 0 {
			o.viol("C19", "listing", "a listing is printed although OptDisasm is off", "with "+name, withOpt(opt))
		}
		if opt&OptTrace != 0 {
			if stacks != len(instr) {
				o.viol("C19", "trace", "stack lines and instruction lines do not pair up", fmt.Sprintf("with %s: %d stack lines, %d instruction lines", name, stacks, len(instr)), withOpt(opt))
			}
			if n, ok := stats["xstats.opsRead"]; ok && n != len(instr) {
				o.viol("C19", "trace", "trace length differs from xstats.opsRead", fmt.Sprintf("with %s: %d traced instructions, opsRead=%d", name, len(instr), n), withOpt(opt))
			}
			// successor relation
			prev := -1
			for i, m := range instr {
				off, _ := strconv.Atoi(m[1])
				in, known := at[off]
				if !known || in.Name() != m[3] {
					o.viol("C19", "trace", "trace lists something that is not an instruction of the program", fmt.Sprintf("with %s: row %d: %s %s", name, i, m[1], m[3]), withOpt(opt))
					break
				}
				if i == 0 && off != 0 {
					o.viol("C19", "trace", "trace does not start at offset 0", fmt.Sprintf("with %s: first row at %d", name, off), withOpt(opt))
					break
				}
				if prev >= 0 {
					p := at[prev]
					if off != p.Off+p.Len && off != p.Target() {
						o.viol("C19", "trace", "trace does not follow the program's successor relation", fmt.Sprintf("with %s: %04d %s followed by %04d", name, p.Off, p.Name(), off), withOpt(opt))
						break
					}
				}
				prev = off
			}
			o.probe("traces_checked", 1)
		} else if len(instr) > 0 || stacks > 0 {
			o.viol("C19", "trace", "trace lines although OptTrace is off", "with "+name, withOpt(opt))
		}
	}
	if len(o.Violations) > 0 {
		return o
	}
	// ---- a Prog object with a past: it held another program that was listed when parsed and
	// traced when run, and then received this program through Load. Listing, trace and
	// statistics of the new program are those of a Prog that never held anything else.
	if base.dump != nil && len(base.dump) < 30000 {
		c19Reloaded(sc, o, &runs, withOpt)
		if len(o.Violations) > 0 {
			return o
		}
	}
	// ---- a failing output writer (full disk, closed pipe): what goes wrong with the observers'
	// extra text must not change the result either
	if len(sc.Src) < 20000 {
		limit := int(hash64(string(sc.Src)) % 97)
		var ref string
		for opt := 0; opt < 8; opt++ {
			fw, fw2 := &failWriter{limit: limit}, &failWriter{limit: limit / 2}
			var log bytes.Buffer
			var res string
			func() {
				defer func() {
					if x := recover(); x != nil {
						res = "panic: " + panicSig(x)
					}
				}()
				prog, err := bcl.Parse(sc.Src, sc.Name, bcl.OptOutput(fw), bcl.OptLogger(&log), bcl.OptDisasm(opt&OptDisasm != 0), bcl.OptStats(opt&OptStats != 0))
				if err != nil {
					res = "parse error: " + err.Error()
					return
				}
				bs, bd, err := bcl.Execute(prog, bcl.OptOutput(fw2), bcl.OptLogger(&log), bcl.OptTrace(opt&OptTrace != 0), bcl.OptStats(opt&OptStats != 0))
				res = "blocks: " + RenderBlocks(bs) + " binding: " + RenderBinding(bd) + " error: " + errText(err)
			}()
			res += " log: " + log.String()
			o.Evals++
			if opt == 0 {
				ref = res
			} else if res != ref {
				o.viol("C19", "result-changed", "with a failing output writer the options change the result",
					fmt.Sprintf("output writer failing after %d bytes, %s: %q vs %q without options", limit, optName(opt), short(res, 300), short(ref, 300)), withOpt(opt))
				break
			}
		}
		o.fault("output_write_error", 1)
	}
	if len(o.Violations) > 0 {
		return o
	}
	// ---- writers that are plain values (a func adapter, a struct holding a slice) rather than
	// pointers, of one dynamic type for output and log, and one writer serving as both (2>&1)
	if len(sc.Src) < 20000 {
		for style := 0; style < 3; style++ {
			var ref string
			for opt := 0; opt < 8; opt++ {
				var outb, logb bytes.Buffer
				var ow, lw io.Writer
				switch style {
				case 0:
					ow = fnWriter(func(p []byte) (int, error) { return outb.Write(p) })
					lw = fnWriter(func(p []byte) (int, error) { return logb.Write(p) })
				case 1:
					ow, lw = teeWriter{[]io.Writer{&outb}}, teeWriter{[]io.Writer{&logb}}
				default:
					ow, lw = &logb, &logb
				}
				var res string
				func() {
					defer func() {
						if x := recover(); x != nil {
							res = "panic: " + panicSig(x)
						}
					}()
					prog, err := bcl.Parse(sc.Src, sc.Name, bcl.OptOutput(ow), bcl.OptLogger(lw), bcl.OptDisasm(opt&OptDisasm != 0), bcl.OptStats(opt&OptStats != 0))
					if err != nil {
						res = "parse error: " + err.Error()
						return
					}
					bs, bd, err := bcl.Execute(prog, bcl.OptOutput(ow), bcl.OptLogger(lw), bcl.OptTrace(opt&OptTrace != 0), bcl.OptStats(opt&OptStats != 0))
					res = "blocks: " + RenderBlocks(bs) + " binding: " + RenderBinding(bd) + " error: " + errText(err)
				}()
				if style < 2 {
					res += " log: " + logb.String()
				}
				o.Evals++
				if opt == 0 {
					ref = res
				} else if res != ref {
					o.viol("C19", "result-changed", "with value-typed or shared writers the options change the result",
						fmt.Sprintf("writer style %s, %s: %q vs %q without options", []string{"func adapter", "struct with a slice", "one writer for output and log"}[style], optName(opt), short(res, 300), short(ref, 300)), withOpt(opt))
					break
				}
			}
		}
		o.probe("value_writer_passes", 1)
	}
	if len(o.Violations) > 0 {
		return o
	}
	// ---- the file pipeline under the same schedule seed for all 8 settings
	var ref *PipeResult
	for opt := 0; opt < 8; opt++ {
		s2 := sc.Clone()
		s2.Opts = opt
		res := RunPipe(t, s2, false, false)
		o.Steps += res.Steps
		checkPipeBasics(t, "C19", s2, res, o)
		if !res.Returned || res.CallerPanic != "" {
			continue
		}
		if opt == 0 {
			ref = res
			continue
		}
		if ref == nil {
			continue
		}
		var diffs []string
		cmp := func(what, a, b string) {
			if a != b {
				diffs = append(diffs, fmt.Sprintf("%s: %q vs %q without options", what, short(a, 200), short(b, 200)))
			}
		}
		cmp("error", res.ErrText, ref.ErrText)
		cmp("diagnostics/warnings", res.Log, ref.Log)
		cmp("blocks", RenderBlocks(res.Blocks), RenderBlocks(ref.Blocks))
		cmp("binding", RenderBinding(res.Binding), RenderBinding(ref.Binding))
		pl, _, _, _ := programLines(res.Out)
		rl, _, _, _ := programLines(ref.Out)
		cmp("printed lines", strings.Join(pl, "|"), strings.Join(rl, "|"))
		if len(diffs) > 0 {
			c := s2.Clone()
			c.Choices = append([]int{}, res.Choices...)
			c.Replay = true
			o.viol("C19", "result-changed", "InterpretFile: options change the result:"+strings.SplitN(diffs[0], ":", 2)[0],
				fmt.Sprintf("InterpretFile with %s: %s", optName(opt), strings.Join(diffs, "; ")), c)
		}
	}
	if base.err != "<nil>" && base.err != "" && base.accepted {
		o.probe("runtime_error_programs", 1)
	}
	if !base.accepted {
		o.probe("rejected_programs", 1)
	}
	return o
}

var c19Earlier = []string{
	"print 1\n",
	"# earlier program\n\ndef t \"x\" { f = 1; g = f + 2 }\nvar a = 10\nvar b = a * 3\nprint \"earlier\", a, b\nprint a and b or 0\nbind t -> struct\n" +
		strings.Repeat("print \"more code than most programs have\" + \"!\"\n", 40),
}

// c19Reloaded executes, under all 8 settings, a Prog that listed and traced an earlier program
// before the scenario's program was loaded into it, and compares with the direct runs.
func c19Reloaded(sc *Scenario, o *Outcome, runs *[8]optRun, withOpt func(int) *Scenario) {
	base := runs[0]
	for which, earlier := range c19Earlier {
		if which != int(hash64(string(sc.Src))>>7)%len(c19Earlier) {
			continue // one past per run: a shorter or a longer earlier program
		}
		var pout, plog bytes.Buffer
		var p *bcl.Prog
		prep := ""
		func() {
			defer func() {
				if x := recover(); x != nil {
					prep = panicSig(x)
				}
			}()
			var err error
			p, err = bcl.Parse([]byte(earlier), sc.Name, bcl.OptOutput(&pout), bcl.OptLogger(&plog), bcl.OptDisasm(true))
			if err != nil {
				prep = err.Error()
				return
			}
			bcl.Execute(p, bcl.OptTrace(true), bcl.OptStats(true))
			if err := p.Load(bytes.NewReader(base.dump)); err != nil {
				prep = "load: " + err.Error()
			}
		}()
		if prep != "" {
			o.probe("reload_not_possible", 1) // C09's and C13's concern
			return
		}
		for opt := 0; opt < 8; opt++ {
			r := runs[opt]
			if r.panicText != "" || !r.accepted {
				continue
			}
			var outB, logB bytes.Buffer
			o0, l0 := pout.Len(), plog.Len()
			ex := Exec(p, &outB, &logB, opt&^OptDisasm)
			o.Evals++
			name := optName(opt &^ OptDisasm)
			if ex.Panic != "" {
				o.viol("C19", "panic", "reloaded Prog with options:"+normSig(ex.Panic),
					fmt.Sprintf("a Prog that listed and traced an earlier program (#%d) and then loaded this one panics when executed with %s: %s", which, name, ex.Panic), withOpt(opt))
				return
			}
			own := pout.String()[o0:]
			var diffs []string
			cmp := func(what, a, b string) {
				if a != b {
					diffs = append(diffs, fmt.Sprintf("%s: %q vs %q when the Prog is fresh", what, short(a, 300), short(b, 300)))
				}
			}
			cmp("error", ex.Err, r.err)
			cmp("blocks", ex.Blocks, r.blocks)
			cmp("binding", ex.Binding, r.binding)
			cmp("output on the Prog's writer", own, r.execOut)
			cmp("output on Execute's writer (trace, statistics)", ex.Out, r.execOutB)
			cmp("warnings on the Prog's log writer", plog.String()[l0:], r.execLog)
			cmp("text on Execute's log writer", ex.Log, r.execLogB)
			if len(diffs) > 0 {
				o.viol("C19", "trace", "a Prog that listed or traced another program before Load shows stale rows or results:"+strings.SplitN(diffs[0], ":", 2)[0],
					fmt.Sprintf("earlier program #%d, executed with %s: %s", which, name, strings.Join(diffs, "; ")), withOpt(opt))
				return
			}
		}
	}
	o.probe("reloaded_prog_runs", 1)
}

func optName(opt int) string {
	var p []string
	if opt&OptDisasm != 0 {
		p = append(p, "OptDisasm")
	}
	if opt&OptTrace != 0 {
		p = append(p, "OptTrace")
	}
	if opt&OptStats != 0 {
		p = append(p, "OptStats")
	}
	if len(p) == 0 {
		return "no options"
	}
	return strings.Join(p, "+")
}
