package sim

import (
	"bytes"
	"errors"
	"fmt"
	"strings"
	"testing"

	"verifharness/gen"
	"verifharness/prng"
	"verifharness/simio"
)

// C11: ParseFile terminates, closes its input exactly once, leaks nothing.
type c11 struct{}

func init() { register(c11{}) }

func (c11) ID() string { return "C11" }
func (c11) Rule() string {
	return "one run = one (input class, reader script, gate set, schedule bias, API variant, options) scenario executed in a synctest bubble; " +
		"non-trivial iff at least 2 reads returned and (a fault fired or the scheduler had a real choice between >=2 pending gates); distinct = distinct event-log hash"
}

var inputClasses = []string{"valid", "valid", "valid", "syntax-early", "syntax-late", "lex-early", "lex-late", "many-errors", "soup", "raw", "empty", "valid-big", "prefixed"}

// specialPrefixes are byte sequences that tools like to treat specially at the start of a file.
var specialPrefixes = []string{"\xEF\xBB\xBF", "\xEF\xBB", "\xFE\xFF", "\xFF\xFE", "#!/usr/bin/bcl\n", "\x00", "\r\n", "\xEF\xBB\xBF\xEF\xBB\xBF"}

// genInput builds an input of the given class. For lexical classes it
// returns the offset of the inserted failure (else -1).
func genInput(r *prng.R, class string, tier string) (src []byte, p *gen.Prog, lexAt int) {
	cfg := gen.DefaultCfg(r)
	lexAt = -1
	switch class {
	case "valid-big":
		cfg.Pad = r.Range(3000, 9000)
		cfg.Stmts = r.Range(5, 60)
	case "many-errors":
		return gen.ManySyntaxErrors(r, r.Range(5, 200)), nil, -1
	case "soup":
		return gen.TokenSoup(r, r.Range(1, 64)), nil, -1
	case "raw":
		return gen.RawBytes(r, r.Range(0, 300)), nil, -1
	case "empty":
		return []byte(prng.Pick(r, []string{"", " ", "\n", "# c", "# c\n", " "})), nil, -1
	}
	if r.Chance(1, 8) {
		cfg.Pad = r.Range(1, 5000)
	}
	p = gen.Generate(r, cfg)
	switch class {
	case "prefixed":
		return append([]byte(prng.Pick(r, specialPrefixes)), p.Src...), nil, -1
	case "syntax-early":
		return gen.WithSyntaxErr(r, p, true), nil, -1
	case "syntax-late":
		return gen.WithSyntaxErr(r, p, false), nil, -1
	case "lex-early":
		src, lexAt = gen.WithLexFail(r, p, true)
		return src, nil, lexAt
	case "lex-late":
		src, lexAt = gen.WithLexFail(r, p, false)
		return src, nil, lexAt
	}
	return p.Src, p, -1
}

func (c11) Gen(seed uint64, idx int, tier string) *Scenario {
	r := prng.New(seed, "C11", idx)
	sc := &Scenario{Prop: "C11", Seed: seed, Idx: idx}
	class := prng.Pick(r, inputClasses)
	sc.Class = class
	src, p, lexAt := genInput(r, class, tier)
	if r.Chance(1, 100) {
		// "every parser outcome" includes the ones reached far from the top: a thousand and more
		// open parentheses, signs, negations or blocks, closed properly, left open, or cut off -
		// with tokens still to come behind the point where a parser might give up
		n := prng.Pick(r, []int{600, 1001, 1030, 2100})
		open, clos := prng.Pick(r, [][2]string{{"(", ")"}, {"-", ""}, {"not ", ""}, {"def b {\n", "}\n"}, {"(-", ")"}})[0], ""
		for _, pr := range [][2]string{{"(", ")"}, {"-", ""}, {"not ", ""}, {"def b {\n", "}\n"}, {"(-", ")"}} {
			if pr[0] == open {
				clos = pr[1]
			}
		}
		body := "1"
		head, tail := "print ", "\nprint 2\nprint 3\nvar z = 4\nprint z + 5\n"
		if strings.HasPrefix(open, "def") {
			head, body = "", "x = 1\n"
		}
		k := prng.Pick(r, []int{n, n, n / 2, 0})
		src, p, lexAt = []byte(head+strings.Repeat(open, n)+body+strings.Repeat(clos, k)+tail), nil, -1
		sc.Class = "deep"
	}
	sc.Src = src
	if lexAt >= 0 {
		sc.SetInt("lexat", lexAt)
	}
	sc.Name = prng.Pick(r, []string{"f.bcl", "", "a/b/c.bcl", "-"})
	sc.API = []string{"ParseFile", "ParseFile", "ParseFile", "InterpretFile", "InterpretFile", "UnmarshalFile"}[r.Intn(6)]
	if r.Chance(1, 3) {
		sc.Opts = r.Intn(8)
	}
	sc.GateRead = r.Chance(7, 10)
	sc.GateClose = r.Chance(6, 10)
	sc.GateName = r.Chance(4, 10)
	sc.GateLog = r.Chance(6, 10)
	sc.GateOut = r.Chance(3, 10)
	sc.Bias = prng.Pick(r, Biases)

	kind := prng.Pick(r, PartitionKinds)
	if len(src) > 3000 && (kind == "bytewise" || kind == "fixed") {
		kind = "geometric"
	}
	sc.SetStr("partition", kind)
	sc.Reads = MakeReads(r, len(src), kind, p)
	if kind == "zeros" || r.Chance(1, 5) {
		sc.Reads = WithZeros(r, sc.Reads, r.Range(1, 3))
	}
	if kind == "eofdata" || r.Chance(1, 5) {
		sc.Reads = MarkEOF(sc.Reads, len(src))
	}
	sc.CloseErr = r.Chance(1, 8)
	if sc.API == "UnmarshalFile" && r.Chance(1, 3) {
		sc.SetInt("target", r.Range(1, 3))
	}
	if r.Chance(1, 6) {
		sc.StatSize = r.Range(1, max(1, len(src)))
	}
	if r.Chance(1, 10) {
		// a long run of zero-byte reads somewhere (a reader that is not ready yet)
		at := r.Intn(len(sc.Reads) + 1)
		run := make([]simio.ReadStep, r.Range(20, 400))
		for i := range run {
			run[i].Zero = true
		}
		sc.Reads = append(sc.Reads[:at:at], append(run, sc.Reads[at:]...)...)
		sc.SetStr("partition", sc.Str("partition")+"+zerorun")
	}
	// endless input after the scripted bytes
	if r.Chance(1, 6) || (strings.HasPrefix(class, "lex") && r.Chance(1, 2)) {
		if strings.HasPrefix(class, "lex") {
			sc.Fill = 4096 * r.Range(20, 1100)
		} else {
			sc.Fill = r.Range(1, 4096*6)
		}
	}
	if sc.Class == "deep" {
		// thousands of diagnostics, or a trace that prints a stack of thousands of cells at every
		// step: on gated writers that is legitimately millions of scheduler steps. The point of
		// this class is the parser outcome, so the writers are not gated and the observers are off.
		sc.GateOut, sc.GateLog, sc.Opts = false, false, 0
	}
	if sc.Opts != 0 && sc.Fill > 2000 {
		// every line of a listing or trace is several gated writes: keep long
		// generated outputs off the gate so that runs stay within the step bound
		sc.GateOut = false
	}
	// a read error at some step, with or without data
	if r.Chance(3, 10) {
		nsteps := len(sc.Reads)
		if nsteps == 0 {
			nsteps = len(src)/4096 + 1
		}
		at := r.Intn(nsteps + 1)
		for len(sc.Reads) <= at {
			sc.Reads = append(sc.Reads, simio.ReadStep{})
		}
		sc.Reads[at].Err = true
		sc.Reads[at].Wrap = r.Chance(1, 4)
		sc.Reads[at].Zero = false
		if r.Chance(1, 2) {
			sc.Reads[at].N = 0 // no data with the error
		} else if sc.Reads[at].N == 0 {
			sc.Reads[at].N = r.Range(1, 4096)
		}
		sc.Reads = sc.Reads[:at+1]
	}
	return sc
}

func stacksSig(gs []GInfo) string {
	var parts []string
	for _, g := range gs {
		parts = append(parts, g.String())
	}
	return strings.Join(parts, ";")
}

// checkPipeBasics evaluates I1-I3 (termination, Close exactly once, no
// leak) for any pipeline run; shared by every property that runs the
// pipeline, reported under the given property id.
func checkPipeBasics(t *testing.T, prop string, sc *Scenario, res *PipeResult, o *Outcome) {
	needStacks := !res.Returned || res.ExitPanic != ""
	var stacks []GInfo
	if needStacks {
		sc2 := sc.Clone()
		sc2.Choices = append([]int{}, res.Choices...)
		sc2.Replay = true
		r2 := RunPipe(t, sc2, true, false)
		stacks = r2.Stacks
	}
	withChoices := func() *Scenario {
		c := sc.Clone()
		c.Choices = append([]int{}, res.Choices...)
		c.Replay = true
		return c
	}
	if res.StepLimit {
		o.viol(prop, "steplimit", "no quiescence within the step budget", fmt.Sprintf("%d scheduler steps", res.Steps), withChoices())
		return
	}
	if res.CallerPanic != "" {
		o.viol(prop, "panic", "caller:"+normSig(res.CallerPanic), "panic in the calling goroutine: "+res.CallerPanic, withChoices())
	}
	if !res.Returned {
		o.viol(prop, "deadlock", stacksSig(stacks),
			fmt.Sprintf("%s never returned: every goroutine is durably blocked and no simulated call is pending; after %d steps, %d reads, closes=%d; blocked: %s",
				sc.API, res.Steps, res.FS.Reads, res.FS.Closes, stacksSig(stacks)), withChoices())
		return
	}
	if res.ExitPanic != "" {
		o.viol(prop, "leak", stacksSig(stacks),
			fmt.Sprintf("%s returned but goroutines it started are still blocked when the bubble is left (%s): %s", sc.API, res.ExitPanic, stacksSig(stacks)), withChoices())
	}
	if res.FS.Closes != 1 {
		o.viol(prop, "close-count", fmt.Sprintf("closes=%d", res.FS.Closes),
			fmt.Sprintf("Close was called %d times by the time the bubble was quiescent (want exactly 1)", res.FS.Closes), withChoices())
	}
	readPending := false
	for _, g := range res.PendAtRet {
		if strings.HasPrefix(g, "file.read") {
			readPending = true
		}
	}
	if readPending || res.FS.ReadCalls > res.ReadCallsAtRet {
		o.viol(prop, "read-outlives-call", "a Read of the input is pending or begins after the call has returned",
			fmt.Sprintf("%s returned while a goroutine it started was still inside (or later entered) Read: %d Read calls had begun at the return, %d in the end; how long that goroutine lives is up to the reader",
				sc.API, res.ReadCallsAtRet, res.FS.ReadCalls), withChoices())
	}
	if res.LateWrites > 0 {
		o.viol(prop, "late-write", "the library writes to the caller's writers after the call has returned",
			fmt.Sprintf("%d writes to the log/output writer began after %s had returned: goroutines of the call outlive it and still use the caller's objects", res.LateWrites, sc.API), withChoices())
	}
	if res.FS.ReadAfterClose > 0 {
		o.viol(prop, "read-after-close", "read after close", fmt.Sprintf("%d Read calls after Close", res.FS.ReadAfterClose), withChoices())
	}
}

var c11HistFirst bool

func (c11) Run(t *testing.T, sc *Scenario) *Outcome {
	o := &Outcome{}
	switch {
	case sc.Int("history", 0) == 1:
		c11History(sc, o) // a saved scenario of the history check (c11hist.go)
	case !c11HistFirst:
		// before this worker process has entered any bubble: whatever the library keeps between
		// calls is still untouched by the simulator
		c11HistFirst = true
		for i := 0; i < 4 && len(o.Violations) == 0; i++ {
			c := sc.Clone()
			c.SetInt("history", 1)
			c.SetInt("histidx", sc.Idx*4+i)
			c11History(c, o)
		}
	case sc.Idx%16 == 3:
		c := sc.Clone()
		c.SetInt("history", 1)
		c.SetInt("histidx", sc.Idx)
		c11History(c, o) // the same properties for a call that is not the process's first
	}
	if len(o.Violations) > 0 {
		return o
	}
	res := RunPipe(t, sc, false, false)
	o.Steps = res.Steps
	fs := res.FS
	o.fault("zero_read", fs.ZeroReads)
	o.fault("eof_with_data", fs.EOFWithData)
	o.fault("short_read", fs.ShortReads)
	if fs.ErrDelivered {
		o.fault("read_error", 1)
	}
	if sc.Fill > 0 && fs.Delivered > len(sc.Src) {
		o.fault("endless_input", 1)
	}
	if sc.CloseErr && fs.Closes > 0 {
		o.fault("close_error", 1)
	}
	if sc.StatSize > 0 && sc.StatSize < len(sc.Src) {
		o.fault("stale_stat_size", 1)
	}
	realChoice := false
	stalls := 0
	for _, c := range res.Choices {
		if c != 0 {
			realChoice = true
			stalls++
		}
	}
	o.fault("stall", stalls)
	o.Nontrivial = fs.Reads >= 2 && (len(o.Faults) > 0 || realChoice)
	o.Hash = res.Hash ^ hash64(res.ErrText) ^ uint64(fs.Closes)<<32 ^ uint64(fs.Reads)
	o.Sched = fmt.Sprint(res.Choices)

	checkPipeBasics(t, "C11", sc, res, o)

	withChoices := func() *Scenario {
		c := sc.Clone()
		c.Choices = append([]int{}, res.Choices...)
		c.Replay = true
		return c
	}
	if res.Returned {
		// I4 error preference
		inj := res.File.Injected
		if fs.ErrDelivered {
			if res.Err == nil {
				o.viol("C11", "read-error-lost", "nil error after a delivered read error",
					fmt.Sprintf("Read #%d returned %v but %s returned a nil error", fs.ErrDeliveredAt, inj, sc.API), withChoices())
			} else if !errors.Is(res.Err, inj) {
				o.viol("C11", "read-error-lost", "other error preferred",
					fmt.Sprintf("Read #%d returned %q but %s returned %q", fs.ErrDeliveredAt, inj.Error(), sc.API, res.ErrText), withChoices())
			}
		} else if res.Err != nil && errors.Is(res.Err, inj) {
			o.viol("C11", "phantom-read-error", "injected error returned though never delivered", res.ErrText, withChoices())
		}
		// I5 bounded reading after a lexical failure
		if at, ok := sc.Ints["lexat"]; ok && !fs.ErrDelivered {
			d := bytes.IndexByte(sc.Src[at:], '\n')
			if d < 0 {
				d = len(sc.Src)
			} else {
				d = at + d + 1
			}
			after := 0
			reached := false
			for _, del := range fs.ReadsAt {
				if reached {
					after++
				}
				if del >= d+1 {
					reached = true
				}
			}
			if reached {
				o.probe("lexfail_detectable_with_input_left", b2i(fs.Remaining > 0))
			}
			if reached && after > 16 {
				o.viol("C11", "reads-after-lexfail", "kept reading after a lexical failure",
					fmt.Sprintf("%d reads returned after the failing byte (offset %d) had been delivered; %d bytes were still unread at the end", after, at, fs.Remaining), withChoices())
			}
			if res.Err == nil {
				// not judged here: which inputs are rejected is C17's business
				o.probe("lexfail_not_rejected", 1)
			}
		}
	}
	// reach probes
	if res.Returned {
		if res.CloseStep < 0 || res.CloseStep > res.RetStep {
			o.probe("returned_before_close_ran", 1)
		}
		for _, g := range res.PendAtRet {
			if strings.HasPrefix(g, "file.read") {
				o.probe("read_pending_at_return", 1)
			}
		}
		if fs.ErrDelivered && res.Log != "" {
			o.probe("read_error_after_parser_diagnostic", 1)
		}
		if res.MaxReadsWhileLogPending >= 3 {
			o.probe("lexer_ran_ahead_while_log_stalled", 1)
		}
	}
	return o
}

func b2i(b bool) int {
	if b {
		return 1
	}
	return 0
}

func hash64(s string) uint64 {
	h := uint64(14695981039346656037)
	for i := 0; i < len(s); i++ {
		h ^= uint64(s[i])
		h *= 1099511628211
	}
	return h
}
