package sim

import (
	"crypto/sha256"
	"encoding/binary"
	"encoding/hex"
	"encoding/json"
	"fmt"
	"os"
	"path/filepath"
	"runtime"
	"sort"
	"strconv"
	"sync/atomic"
	"syscall"
	"testing"
	"time"
)

// WorkerResult is what one worker process reports to the parent.
type WorkerResult struct {
	Prop       string           `json:"prop"`
	Tier       string           `json:"tier"`
	Seed       uint64           `json:"seed"`
	From, To   int              // run-index range requested [From,To)
	Done       int              `json:"done"` // next index not yet run
	Runs       int              `json:"runs"`
	Evals      int              `json:"evals"`
	Nontrivial int              `json:"nontrivial"`
	Skipped    int              `json:"skipped"`
	Steps      int64            `json:"steps"`
	Faults     map[string]int   `json:"faults"`
	Probes     map[string]int   `json:"probes"`
	Classes    map[string]int   `json:"classes"`
	Violations []Violation      `json:"violations"`
	Samples    []map[string]any `json:"samples"`
	Digests    map[int]string   `json:"digests,omitempty"`
	RunHashes  map[int]uint64   `json:"run_hashes,omitempty"` // per-index hash (determinism self-test)
	Scheds     int              `json:"scheds"`
	Complete   bool             `json:"complete"`
	WallMs     int64            `json:"wall_ms"`
	Gomaxprocs int              `json:"gomaxprocs"`
	HashFile   string           `json:"hash_file"`
	States     []uint64         `json:"states,omitempty"` // distinct abstract quiescent states (pipe.go: noteState)
}

func envInt(k string, def int) int {
	if v := os.Getenv(k); v != "" {
		if n, err := strconv.Atoi(v); err == nil {
			return n
		}
	}
	return def
}

func envU64(k string, def uint64) uint64 {
	if v := os.Getenv(k); v != "" {
		if n, err := strconv.ParseUint(v, 10, 64); err == nil {
			return n
		}
		if n, err := strconv.ParseInt(v, 10, 64); err == nil {
			return uint64(n)
		}
	}
	return def
}

type journal struct{ f *os.File }

func (j *journal) line(s string) {
	if j.f != nil {
		j.f.WriteString(s)
	}
}

// ReplayDir is where replay files are written.
func ReplayDir() string {
	if d := os.Getenv("VERIF_REPLAYS"); d != "" {
		return d
	}
	if d := os.Getenv("VERIF_DIR"); d != "" {
		return filepath.Join(d, "replays")
	}
	return "/verif/replays"
}

// SaveReplay writes the violation's scenario as a replay file and returns
// its path.
func SaveReplay(v *Violation) string {
	sc := v.Scenario.Clone()
	sc.ExpectSig = v.Sig
	sc.ExpectKind = v.Kind
	sc.Detail = v.Detail
	b, _ := json.Marshal(sc)
	h := sha256.Sum256(b)
	os.MkdirAll(ReplayDir(), 0o755)
	path := filepath.Join(ReplayDir(), fmt.Sprintf("%s-%s.json", v.Prop, hex.EncodeToString(h[:6])))
	sc.Save(path)
	return path
}

// WorkerMain runs the work order found in the environment.
func WorkerMain(t *testing.T) {
	propID := os.Getenv("VERIF_PROP")
	if propID == "" {
		t.Skip("no work order (VERIF_PROP unset)")
	}
	p, ok := Registry[propID]
	if !ok {
		fmt.Fprintf(os.Stderr, "worker: unknown property %q\n", propID)
		os.Exit(2)
	}
	if lim := envInt("VERIF_AS_LIMIT_MB", 0); lim > 0 {
		// a legitimate but enormous result (string repetition) must end in the runtime's
		// "out of memory", quickly, not in the machine swapping
		r := syscall.Rlimit{Cur: uint64(lim) << 20, Max: uint64(lim) << 20}
		syscall.Setrlimit(syscall.RLIMIT_AS, &r)
	}
	tier := os.Getenv("VERIF_TIER")
	if tier == "" {
		tier = "quick"
	}
	seed := envU64("VERIF_SEED", 1)

	// replay mode
	if path := os.Getenv("VERIF_REPLAY"); path != "" {
		sc, err := LoadScenario(path)
		if err != nil {
			fmt.Fprintf(os.Stderr, "worker: %v\n", err)
			os.Exit(2)
		}
		fmt.Fprintf(os.Stderr, "BEGIN replay\n")
		o := p.Run(t, sc)
		fmt.Fprintf(os.Stderr, "END replay\n")
		out := map[string]any{"violations": o.Violations, "hash": o.Hash}
		b, _ := json.Marshal(out)
		if rf := os.Getenv("VERIF_OUT"); rf != "" {
			os.WriteFile(rf, b, 0o644)
		}
		for _, v := range o.Violations {
			fmt.Printf("REPLAY-VIOLATION sig=%q\n", v.Sig)
		}
		return
	}
	// dump-scenario mode (the parent minimises process-killing scenarios)
	if v := os.Getenv("VERIF_DUMPSCENARIO"); v != "" {
		idx, _ := strconv.Atoi(v)
		sc := p.Gen(seed, idx, tier)
		sc.Save(os.Getenv("VERIF_OUT"))
		return
	}

	from, to := envInt("VERIF_FROM", 0), envInt("VERIF_TO", 0)
	budget := time.Duration(envInt("VERIF_BUDGET_MS", 0)) * time.Millisecond
	start := time.Now()
	res := &WorkerResult{Prop: propID, Tier: tier, Seed: seed, From: from, To: to, Done: from,
		Faults: map[string]int{}, Probes: map[string]int{}, Classes: map[string]int{},
		Gomaxprocs: envInt("GOMAXPROCS", 0)}
	wantDigests := os.Getenv("VERIF_DIGESTS") != ""
	wantHashes := os.Getenv("VERIF_RUNHASHES") != ""
	noShrink := os.Getenv("VERIF_NOSHRINK") != ""
	if wantDigests {
		res.Digests = map[int]string{}
	}
	if wantHashes {
		res.RunHashes = map[int]uint64{}
	}
	var jr journal
	if jp := os.Getenv("VERIF_JOURNAL"); jp != "" {
		f, err := os.OpenFile(jp, os.O_CREATE|os.O_WRONLY|os.O_APPEND, 0o644)
		if err == nil {
			jr.f = f
			defer f.Close()
		}
	}
	var lastBeat atomic.Int64
	Beat = func() {
		now := time.Now().UnixMilli()
		if last := lastBeat.Load(); jr.f != nil && now-last > 300 && lastBeat.CompareAndSwap(last, now) {
			jr.f.WriteString("H\n")
		}
	}
	markStderr := os.Getenv("VERIF_MARK_STDERR") != ""
	hashes := map[uint64]struct{}{}
	scheds := map[string]struct{}{}
	bySig := map[string]int{}
	outPath := os.Getenv("VERIF_OUT")
	flush := func(complete bool) {
		res.Complete = complete
		res.WallMs = time.Since(start).Milliseconds()
		res.Scheds = len(scheds)
		if outPath == "" {
			return
		}
		hs := make([]uint64, 0, len(hashes))
		for h := range hashes {
			hs = append(hs, h)
		}
		sort.Slice(hs, func(i, j int) bool { return hs[i] < hs[j] })
		hb := make([]byte, 8*len(hs))
		for i, h := range hs {
			binary.LittleEndian.PutUint64(hb[8*i:], h)
		}
		res.States = res.States[:0]
		for h := range StateSigs {
			res.States = append(res.States, h)
		}
		sort.Slice(res.States, func(i, j int) bool { return res.States[i] < res.States[j] })
		res.HashFile = outPath + ".hashes"
		os.WriteFile(res.HashFile, hb, 0o644)
		b, _ := json.Marshal(res)
		os.WriteFile(outPath+".tmp", b, 0o644)
		os.Rename(outPath+".tmp", outPath)
	}
	lastFlush := time.Now()
	for idx := from; idx < to; idx++ {
		if budget > 0 && time.Since(start) > budget {
			break
		}
		jr.line(fmt.Sprintf("B %d\n", idx))
		if markStderr {
			fmt.Fprintf(os.Stderr, "BEGIN %d\n", idx)
		}
		sc := p.Gen(seed, idx, tier)
		RunLogHash = 0
		o := p.Run(t, sc)
		if markStderr {
			fmt.Fprintf(os.Stderr, "END %d\n", idx)
		}
		jr.line(fmt.Sprintf("E %d\n", idx))
		res.Done = idx + 1
		res.Runs++
		ev := o.Evals
		if ev == 0 {
			ev = 1
		}
		res.Evals += ev
		res.Steps += int64(o.Steps)
		res.Classes[sc.Class]++
		if o.Skipped {
			res.Skipped++
		}
		if o.Nontrivial {
			res.Nontrivial++
			hashes[o.Hash] = struct{}{}
		}
		if o.Sched != "" && len(scheds) < 2_000_000 {
			scheds[o.Sched] = struct{}{}
		}
		for k, v := range o.Faults {
			res.Faults[k] += v
		}
		for k, v := range o.Probes {
			res.Probes[k] += v
		}
		if wantDigests {
			res.Digests[idx] = o.Digest
		}
		if wantHashes {
			h := o.Hash ^ RunLogHash*31 ^ hash64(o.Digest)*17 ^ uint64(len(o.Violations))<<56
			for _, v := range o.Violations {
				h ^= hash64(v.Sig)
			}
			res.RunHashes[idx] = h
		}
		if len(res.Samples) < 3 && (o.Nontrivial || idx == from) {
			s := sc.Summary()
			s["steps"] = o.Steps
			res.Samples = append(res.Samples, s)
		}
		for _, v := range o.Violations {
			if i, seen := bySig[v.Sig]; seen {
				res.Violations[i].Count++
				continue
			}
			v := v
			if v.Scenario == nil {
				v.Scenario = sc
			}
			if !noShrink && v.Kind != "hang" { // every candidate that still hangs costs the whole hang bound
				sig := v.Sig
				min := Shrink(v.Scenario, sig, 150, func(c *Scenario) bool { Beat(); return hasSig(t, p, c, sig) })
				v.Scenario = min
			}
			Beat()
			v.Repro = hasSig(t, p, v.Scenario, v.Sig)
			Beat()
			v.Scenario.SetInt("gomaxprocs", runtime.GOMAXPROCS(0)) // part of the environment of the run: replay uses it
			v.Replay = SaveReplay(&v)
			bySig[v.Sig] = len(res.Violations)
			res.Violations = append(res.Violations, v)
			flush(false)
		}
		if res.Runs%16 == 0 || time.Since(lastFlush) > 2*time.Second {
			lastFlush = time.Now()
			flush(false)
		}
	}
	flush(true)
}
