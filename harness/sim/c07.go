package sim

import (
	"bytes"
	"fmt"
	"sort"
	"strings"
	"testing"

	"verifharness/gen"
	"verifharness/prng"
	"verifharness/simio"
)

// C07: streaming parse does not depend on how the input is chunked.
type c07 struct{}

func init() { register(c07{}) }

func (c07) ID() string { return "C07" }
func (c07) Rule() string {
	return "one evaluation = one (source, partition into reads, gate schedule) run of the real ParseFile pipeline compared with bcl.Parse of the whole source on the same build " +
		"(error, diagnostics, output, dump bytes); 'allcuts' scenarios enumerate every single cut 0..n of a source (x4 zero-read placements), 'pagesweep' scenarios place a real 4096-byte page boundary on every byte of a chosen token; " +
		"non-trivial iff the input was delivered in >=2 non-empty chunks; distinct = distinct (source hash, chunk-end list) pairs"
}

// CutsToReads turns sorted cut offsets into a read script.
func CutsToReads(cuts []int) []simio.ReadStep {
	var out []simio.ReadStep
	prev := 0
	for _, c := range cuts {
		for c-prev > 4096 {
			out = append(out, simio.ReadStep{N: 4096})
			prev += 4096
		}
		if c > prev {
			out = append(out, simio.ReadStep{N: c - prev})
			prev = c
		}
	}
	return out
}

// interestingCuts lists offsets inside multi-byte runes, between the two
// characters of two-character operators and escapes, and around line ends.
func interestingCuts(src []byte) []int {
	var out []int
	for i := 1; i < len(src); i++ {
		a, b := src[i-1], src[i]
		switch {
		case b&0xC0 == 0x80: // continuation byte: cut inside a rune
			out = append(out, i)
		case (a == '=' || a == '!' || a == '<' || a == '>') && b == '=':
			out = append(out, i)
		case a == '-' && b == '>':
			out = append(out, i)
		case a == '\\':
			out = append(out, i)
		case a == '\r' || a == '\n' || b == '\r' || b == '\n':
			out = append(out, i)
		case a == '0' && (b == 'x' || b == 'X'):
			out = append(out, i)
		case a == '.' || b == '.' || a == 'e' || a == 'E':
			out = append(out, i)
		case a == '#' || b == '#' || a == '"' || b == '"':
			out = append(out, i)
		}
	}
	return out
}

func (c07) Gen(seed uint64, idx int, tier string) *Scenario {
	r := prng.New(seed, "C07", idx)
	sc := &Scenario{Prop: "C07", Seed: seed, Idx: idx, API: "ParseFile"}
	class := prng.Pick(r, []string{"valid", "valid", "valid", "valid", "syntax-early", "syntax-late", "lex-early", "lex-late", "many-errors", "soup", "raw", "valid-big", "valid-exotic", "prefixed"})
	sc.Class = class
	var src []byte
	var p *gen.Prog
	if class == "valid-exotic" {
		cfg := gen.DefaultCfg(r)
		cfg.Exotic = 70
		cfg.Stmts = r.Range(1, 12)
		p = gen.Generate(r, cfg)
		src = p.Src
	} else {
		src, p, _ = genInput(r, class, tier)
	}
	if r.Chance(1, 60) || (tier == "thorough" && r.Chance(1, 15)) {
		// one lexical unit larger than any plausible cap: a string, a comment line, a run of blanks, an identifier
		n := prng.Pick(r, []int{4096, 4097, 8192, 65535, 65536, 65537, 70000})
		unit := prng.Pick(r, []string{"str", "comment", "blanks", "ident"})
		var big string
		switch unit {
		case "str":
			big = "print \"" + strings.Repeat("s", n) + "\"\n"
		case "comment":
			big = "#" + strings.Repeat("c", n) + "\n"
		case "blanks":
			big = strings.Repeat(" ", n) + "\n"
		default:
			big = "var " + strings.Repeat("i", n) + " = 1\n"
		}
		at := 0
		if i := bytes.IndexByte(src, '\n'); i >= 0 && r.Chance(1, 2) {
			at = i + 1
		}
		src = append(append(append([]byte{}, src[:at]...), big...), src[at:]...)
		p = nil
		sc.Class = class + "+big-" + unit
	}
	sc.Src = src
	sc.Name = prng.Pick(r, []string{"f.bcl", "", "dir/x.bcl"})
	if r.Chance(1, 6) {
		sc.Opts = prng.Pick(r, []int{OptDisasm, OptStats, OptDisasm | OptStats})
	}
	if r.Chance(1, 4) {
		sc.GateRead = true
		sc.GateLog = r.Chance(2, 3)
		sc.GateClose = r.Chance(1, 2)
		sc.GateName = r.Chance(1, 3)
		sc.Bias = prng.Pick(r, Biases)
	}
	if r.Chance(1, 5) && len(src) > 1 {
		sc.StatSize = r.Range(1, len(src)) // stale metadata: the file grew after its size was taken
	}
	mode := r.Weighted(10, 2, 1, 3)
	if tier == "thorough" {
		mode = r.Weighted(8, 3, 2, 3)
	}
	switch {
	case mode == 1 && len(src) <= 400 && len(src) > 0:
		sc.SetInt("allcuts", 1)
		sc.GateRead, sc.GateLog, sc.GateClose, sc.GateName = false, false, false, false
	case mode == 2 && p != nil && len(p.Toks) > 0 && len(src) < 3000:
		sc.SetInt("pagesweep", r.Intn(len(p.Toks)))
		t := p.Toks[sc.Ints["pagesweep"]]
		sc.SetInt("sweep_lo", t.Start)
		sc.SetInt("sweep_hi", min(t.End+1, t.Start+24))
		sc.GateRead, sc.GateLog, sc.GateClose, sc.GateName = false, false, false, false
	case mode == 3 && len(src) > 1:
		// cuts at interesting offsets (inside runes, operators, escapes, line ends)
		ic := interestingCuts(src)
		if len(ic) == 0 {
			ic = []int{r.Range(1, len(src)-1)}
		}
		n := r.Range(1, min(6, len(ic)))
		set := map[int]bool{}
		for i := 0; i < n; i++ {
			set[prng.Pick(r, ic)] = true
		}
		var cuts []int
		for c := range set {
			cuts = append(cuts, c)
		}
		sort.Ints(cuts)
		sc.Reads = CutsToReads(cuts)
		sc.SetStr("partition", "interesting")
	default:
		kind := prng.Pick(r, PartitionKinds)
		if len(src) > 3000 && (kind == "bytewise" || kind == "fixed") {
			kind = "geometric"
		}
		sc.SetStr("partition", kind)
		sc.Reads = MakeReads(r, len(src), kind, p)
		if kind == "zeros" || r.Chance(1, 6) {
			sc.Reads = WithZeros(r, sc.Reads, r.Range(1, 3))
		}
		if kind == "eofdata" || r.Chance(1, 6) {
			sc.Reads = MarkEOF(sc.Reads, len(src))
		}
	}
	return sc
}

// compareWithBaseline runs one concrete partition and compares with base.
func c07Compare(t *testing.T, sc *Scenario, base *MemResult, baseDump []byte, o *Outcome) (chunks int) {
	res := RunPipe(t, sc, false, false)
	o.Steps += res.Steps
	fs := res.FS
	o.fault("zero_read", fs.ZeroReads)
	o.fault("eof_with_data", fs.EOFWithData)
	o.fault("short_read", fs.ShortReads)
	checkPipeBasics(t, "C07", sc, res, o)
	if !res.Returned || res.CallerPanic != "" {
		return len(fs.ChunkEnds)
	}
	withChoices := func() *Scenario {
		c := sc.Clone()
		c.Choices = append([]int{}, res.Choices...)
		c.Replay = true
		delete(c.Ints, "allcuts")
		delete(c.Ints, "pagesweep")
		return c
	}
	where := fmt.Sprintf("chunk ends %v", headInts(fs.ChunkEnds, 12))
	if (res.Err == nil) != (base.Err == nil) {
		o.viol("C07", "outcome", "accept/reject differs from whole-input Parse",
			fmt.Sprintf("ParseFile error=%q, Parse error=%q; %s; ParseFile diagnostics: %s", res.ErrText, base.ErrText, where, short(res.Log, 300)), withChoices())
		return len(fs.ChunkEnds)
	}
	if res.ErrText != base.ErrText {
		o.viol("C07", "error-text", "error text differs", fmt.Sprintf("ParseFile %q vs Parse %q; %s", res.ErrText, base.ErrText, where), withChoices())
	}
	if res.Log != base.Log {
		o.viol("C07", "diagnostics", "diagnostic text differs from whole-input Parse",
			fmt.Sprintf("%s\nParseFile: %s\nParse:     %s", where, short(res.Log, 400), short(base.Log, 400)), withChoices())
	}
	if res.Out != base.Out {
		o.viol("C07", "output", "listing/statistics differ from whole-input Parse",
			fmt.Sprintf("%s\nParseFile: %s\nParse:     %s", where, short(res.Out, 300), short(base.Out, 300)), withChoices())
	}
	if res.Err == nil && base.Err == nil && baseDump != nil {
		d, derr, dpanic := DumpProg(res.Prog)
		if dpanic != "" || derr != "" {
			o.viol("C07", "dump", "dump of the streamed program fails", derr+dpanic, withChoices())
		} else if !bytes.Equal(d, baseDump) {
			o.viol("C07", "program", "compiled program differs from whole-input Parse",
				fmt.Sprintf("%s; dumps: %s", where, firstDiff(d, baseDump)), withChoices())
		}
	}
	return len(fs.ChunkEnds)
}

func headInts(x []int, n int) []int {
	if len(x) > n {
		return x[:n]
	}
	return x
}

func (c07) Run(t *testing.T, sc *Scenario) *Outcome {
	o := &Outcome{}
	base := ParseMem(sc.Src, sc.Name, sc.Opts)
	if base.Panic != "" {
		o.Skipped = true // a panicking baseline is C06's finding, not a chunking difference
		return o
	}
	var baseDump []byte
	if base.Err == nil {
		d, derr, dpanic := DumpProg(base.Prog)
		if derr == "" && dpanic == "" {
			baseDump = d
		}
	}
	srcHash := hash64(string(sc.Src))
	switch {
	case sc.Int("allcuts", 0) == 1:
		n := len(sc.Src)
		evals, multi := 0, 0
		for c := 0; c <= n; c++ {
			for variant := 0; variant < 4; variant++ {
				s2 := sc.Clone()
				delete(s2.Ints, "allcuts")
				cut := simio.ReadStep{N: c}
				z := simio.ReadStep{Zero: true}
				switch variant {
				case 0:
					s2.Reads = []simio.ReadStep{cut}
				case 1:
					s2.Reads = []simio.ReadStep{z, cut}
				case 2:
					s2.Reads = []simio.ReadStep{cut, z}
				case 3:
					s2.Reads = []simio.ReadStep{cut, z, z, {N: 1}, z}
				}
				if c == 0 {
					s2.Reads = s2.Reads[1:]
					if variant == 0 {
						s2.Reads = nil
					}
				}
				if c07Compare(t, s2, base, baseDump, o) >= 2 {
					multi++
				}
				evals++
				if len(o.Violations) > 0 {
					break
				}
			}
			if len(o.Violations) > 0 {
				break
			}
		}
		o.Evals = evals
		o.Nontrivial = multi > 0
		o.Hash = srcHash ^ 0xA11C
		o.probe("allcuts_sources", 1)
	case sc.Ints != nil && hasKey(sc.Ints, "pagesweep"):
		lo, hi := sc.Int("sweep_lo", 0), sc.Int("sweep_hi", 0)
		evals := 0
		for off := lo; off <= hi && off <= len(sc.Src); off++ {
			// pad so that byte `off` of the source is the first byte of the second page
			padN := 4096 - off%4096
			if off%4096 == 0 {
				padN = 4096
			}
			pad := bytes.Repeat([]byte("#"), padN-1)
			pad = append(pad, '\n')
			s2 := sc.Clone()
			delete(s2.Ints, "pagesweep")
			s2.Src = append(pad, sc.Src...)
			s2.Reads = nil // real 4096-byte pages
			b2 := ParseMem(s2.Src, s2.Name, s2.Opts)
			if b2.Panic != "" {
				continue
			}
			var d2 []byte
			if b2.Err == nil {
				d2, _, _ = DumpProg(b2.Prog)
			}
			c07Compare(t, s2, b2, d2, o)
			evals++
			o.fault("page_4096", 1)
			if len(o.Violations) > 0 {
				break
			}
		}
		o.Evals = evals
		o.Nontrivial = evals > 0
		o.Hash = srcHash ^ uint64(lo)<<20 ^ 0x9A6E
	default:
		chunks := c07Compare(t, sc, base, baseDump, o)
		o.Nontrivial = chunks >= 2
		h := srcHash
		for _, r := range sc.Reads {
			h = h*1099511628211 ^ uint64(r.N)
			if r.Zero {
				h ^= 0x55
			}
		}
		o.Hash = h
	}
	if base.Err != nil {
		o.probe("baseline_rejects", 1)
	} else {
		o.probe("baseline_accepts", 1)
	}
	return o
}

func hasKey(m map[string]int, k string) bool { _, ok := m[k]; return ok }
