package sim

import (
	"bytes"
	"crypto/sha256"
	"encoding/hex"
	"fmt"
	"reflect"
	"regexp"
	"sort"
	"strings"
	"sync"
	"testing"

	"github.com/wkhere/bcl"

	"verifharness/gen"
	"verifharness/prng"
	"verifharness/simio"
)

// Violation is one observed breach of a property.
type Violation struct {
	Prop     string    `json:"prop"`
	Kind     string    `json:"kind"`   // e.g. deadlock, leak, panic, mismatch
	Sig      string    `json:"sig"`    // normalised signature (matched against known findings)
	Detail   string    `json:"detail"` // human-readable
	Scenario *Scenario `json:"scenario,omitempty"`
	Count    int       `json:"count"`
	Replay   string    `json:"replay,omitempty"`
	Repro    bool      `json:"reproduced"`
}

// Outcome is what one run reports back to the worker loop.
type Outcome struct {
	Violations []Violation
	Hash       uint64 // event-log / outcome hash (determinism self-test)
	Digest     string // cross-process outcome digest (C16)
	Nontrivial bool
	Steps      int
	Faults     map[string]int
	Probes     map[string]int
	Skipped    bool
	Evals      int    // number of evaluations this run stands for (default 1)
	Sched      string // gate trace key for distinct-schedule counting
}

func (o *Outcome) fault(k string, n int) {
	if n == 0 {
		return
	}
	if o.Faults == nil {
		o.Faults = map[string]int{}
	}
	o.Faults[k] += n
}
func (o *Outcome) probe(k string, n int) {
	if o.Probes == nil {
		o.Probes = map[string]int{}
	}
	o.Probes[k] += n
}
func (o *Outcome) viol(prop, kind, sig, detail string, sc *Scenario) {
	o.Violations = append(o.Violations, Violation{Prop: prop, Kind: kind, Sig: kind + ":" + sig, Detail: detail, Scenario: sc, Count: 1})
}

// Property is one claimed property's workload and oracle.
type Property interface {
	ID() string
	// Gen builds scenario number idx for a seed and tier, deterministically.
	Gen(seed uint64, idx int, tier string) *Scenario
	// Run executes a scenario and evaluates the oracle.
	Run(t *testing.T, sc *Scenario) *Outcome
	// Rule states what makes a run non-trivial for the evidence file.
	Rule() string
}

var Registry = map[string]Property{}

func register(p Property) { Registry[p.ID()] = p }

// ---- read scripts (partitions of an input into reads)

// PartitionKinds are the delivery strategies of DESIGN.md C07.
var PartitionKinds = []string{"whole", "bytewise", "fixed", "geometric", "twocut", "token", "page", "eofdata", "zeros", "manyzeros"}

// MakeReads builds a read script for n bytes of input. toks (may be nil)
// gives token boundaries for targeted cuts. It returns the script and the
// fault kinds it is meant to fire.
func MakeReads(r *prng.R, n int, kind string, p *gen.Prog) []simio.ReadStep {
	var out []simio.ReadStep
	switch kind {
	case "whole":
		// default: full 4096-byte pages
	case "bytewise":
		for i := 0; i < n; i++ {
			out = append(out, simio.ReadStep{N: 1})
		}
	case "fixed":
		k := r.Range(2, 17)
		for i := 0; i < n; i += k {
			out = append(out, simio.ReadStep{N: k})
		}
	case "geometric":
		mean := []int{2, 5, 20, 100, 700}[r.Intn(5)]
		for i := 0; i < n; {
			k := r.Geom(mean, 4096)
			out = append(out, simio.ReadStep{N: k})
			i += k
		}
	case "twocut":
		c := r.Range(0, n)
		out = append(out, simio.ReadStep{N: c})
	case "token":
		// cuts inside / at the ends of a few tokens
		if p == nil || len(p.Toks) == 0 {
			return MakeReads(r, n, "geometric", nil)
		}
		cuts := map[int]bool{}
		for i := r.Range(1, 6); i > 0; i-- {
			t := p.Toks[r.Intn(len(p.Toks))]
			switch r.Intn(4) {
			case 0:
				cuts[t.Start] = true
			case 1:
				cuts[t.End] = true
			default:
				if t.End-t.Start > 1 {
					cuts[t.Start+r.Range(1, t.End-t.Start-1)] = true
				} else {
					cuts[t.Start] = true
				}
			}
		}
		var cs []int
		for c := range cuts {
			if c > 0 && c < n {
				cs = append(cs, c)
			}
		}
		sort.Ints(cs)
		prev := 0
		for _, c := range cs {
			for c-prev > 4096 {
				out = append(out, simio.ReadStep{N: 4096})
				prev += 4096
			}
			if c > prev {
				out = append(out, simio.ReadStep{N: c - prev})
				prev = c
			}
		}
	case "page":
		// real 4096-byte pages: nothing scripted
	case "eofdata":
		out = MakeReads(r, n, prng.Pick(r, []string{"geometric", "fixed", "whole"}), p)
	case "zeros":
		out = MakeReads(r, n, prng.Pick(r, []string{"geometric", "fixed", "token", "whole"}), p)
	case "manyzeros":
		// a zero-byte read in front of every piece, well over a hundred of them in one call
		k := max(1, n/r.Range(110, 260))
		for i := 0; i < n || len(out) < 240; i += k {
			out = append(out, simio.ReadStep{Zero: true}, simio.ReadStep{N: k})
		}
	}
	return out
}

// WithZeros inserts up to k runs of 1..3 zero-byte reads at seeded positions.
func WithZeros(r *prng.R, reads []simio.ReadStep, k int) []simio.ReadStep {
	for i := 0; i < k; i++ {
		at := r.Intn(len(reads) + 1)
		run := r.Range(1, 3)
		z := make([]simio.ReadStep, run)
		for j := range z {
			z[j].Zero = true
		}
		reads = append(reads[:at], append(z, reads[at:]...)...)
	}
	return reads
}

// MarkEOF makes every step able to deliver EOF with the last data.
func MarkEOF(reads []simio.ReadStep, n int) []simio.ReadStep {
	// ensure the script covers the whole input so the flag lands on the last chunk
	sum := 0
	for i := range reads {
		reads[i].EOF = true
		if !reads[i].Zero {
			k := reads[i].N
			if k <= 0 || k > 4096 {
				k = 4096
			}
			sum += k
		}
	}
	for sum < n {
		reads = append(reads, simio.ReadStep{EOF: true})
		sum += 4096
	}
	return reads
}

// ---- outcome rendering

// RenderBlocks renders blocks canonically (keys sorted, types shown).
func RenderBlocks(bs []bcl.Block) string {
	var sb strings.Builder
	for _, b := range bs {
		renderBlock(&sb, b, 0)
	}
	return sb.String()
}

func renderBlock(sb *strings.Builder, b bcl.Block, ind int) {
	pad := strings.Repeat(" ", ind)
	fmt.Fprintf(sb, "%sblock %q %q {\n", pad, b.Type, b.Name)
	keys := make([]string, 0, len(b.Fields))
	for k := range b.Fields {
		keys = append(keys, k)
	}
	sort.Strings(keys)
	for _, k := range keys {
		switch v := b.Fields[k].(type) {
		case bcl.Block:
			fmt.Fprintf(sb, "%s %q:\n", pad, k)
			renderBlock(sb, v, ind+2)
		default:
			fmt.Fprintf(sb, "%s %q = %T(%#v)\n", pad, k, v, v)
		}
	}
	fmt.Fprintf(sb, "%s}\n", pad)
}

func RenderBinding(b bcl.Binding) string {
	switch v := b.(type) {
	case nil:
		return "nil"
	case bcl.StructBinding:
		return "struct:" + RenderBlocks([]bcl.Block{v.Value})
	case bcl.SliceBinding:
		return fmt.Sprintf("slice[%d]:", len(v.Value)) + RenderBlocks(v.Value)
	}
	return fmt.Sprintf("%T", b)
}

func errText(err error) string {
	if err == nil {
		return "<nil>"
	}
	t := err.Error()
	kept.mu.Lock()
	if kept.on && len(kept.list) < 4096 {
		kept.list = append(kept.list, keptErr{err, t})
	}
	kept.mu.Unlock()
	return t
}

// kept holds the error values calls returned during one run, with the text they had when they
// were returned: a result once handed to the caller must not change because of a later call.
type keptErr struct {
	err  error
	text string
}

var kept struct {
	mu   sync.Mutex
	on   bool
	list []keptErr
}

func keepErrors(on bool) {
	kept.mu.Lock()
	kept.on, kept.list = on, nil
	kept.mu.Unlock()
}

// changedError returns a description of the first kept error whose text is no longer what it was.
func changedError() string {
	kept.mu.Lock()
	defer kept.mu.Unlock()
	for _, k := range kept.list {
		if now := k.err.Error(); now != k.text {
			return fmt.Sprintf("an error that read %q when it was returned reads %q after later calls", short(k.text, 200), short(now, 200))
		}
	}
	return ""
}

func digest(parts ...string) string {
	h := sha256.New()
	for _, p := range parts {
		fmt.Fprintf(h, "%d:", len(p))
		h.Write([]byte(p))
	}
	return hex.EncodeToString(h.Sum(nil))[:24]
}

// ExecResult is an execution of a Prog with recording writers.
type ExecResult struct {
	Out, Log   string
	Blocks     string
	Binding    string
	Err        string
	Panic      string
	RawBlocks  []bcl.Block
	RawBinding bcl.Binding
}

func (e *ExecResult) Digest() string {
	return digest(e.Out, e.Log, e.Blocks, e.Binding, e.Err, e.Panic)
}

// Exec runs bcl.Execute under recover. The Prog's own writers (fixed when it
// was created) receive the text; the caller passes the buffers it gave then.
func Exec(p *bcl.Prog, out, log *bytes.Buffer, opts int) *ExecResult {
	r := &ExecResult{}
	o0, l0 := out.Len(), log.Len()
	func() {
		defer func() {
			if x := recover(); x != nil {
				r.Panic = panicSig(x)
			}
		}()
		bs, bd, err := bcl.Execute(p, bcl.OptOutput(out), bcl.OptLogger(log),
			bcl.OptTrace(opts&OptTrace != 0), bcl.OptStats(opts&OptStats != 0))
		r.Blocks, r.Binding, r.Err = RenderBlocks(bs), RenderBinding(bd), errText(err)
		r.RawBlocks, r.RawBinding = bs, bd
	}()
	r.Out, r.Log = out.String()[o0:], log.String()[l0:]
	Beat()
	return r
}

// ExecW is Exec for a Prog whose writers are SimWriters.
func ExecW(p *bcl.Prog, out, log *simio.SimWriter, opts int) *ExecResult {
	r := &ExecResult{}
	o0, l0 := out.Len(), log.Len()
	func() {
		defer func() {
			if x := recover(); x != nil {
				r.Panic = panicSig(x)
			}
		}()
		bs, bd, err := bcl.Execute(p, bcl.OptOutput(out), bcl.OptLogger(log),
			bcl.OptTrace(opts&OptTrace != 0), bcl.OptStats(opts&OptStats != 0))
		r.Blocks, r.Binding, r.Err = RenderBlocks(bs), RenderBinding(bd), errText(err)
		r.RawBlocks, r.RawBinding = bs, bd
	}()
	r.Out, r.Log = out.String()[o0:], log.String()[l0:]
	Beat()
	return r
}

var reAddr = regexp.MustCompile(`0x[0-9a-f]{6,}`)
var reNum = regexp.MustCompile(`\d+`)

// panicSig normalises a recovered panic value into a signature fragment.
func panicSig(x any) string {
	s := fmt.Sprint(x)
	s = reAddr.ReplaceAllString(s, "0xADDR")
	if len(s) > 160 {
		s = s[:160]
	}
	return s
}

// normSig removes volatile numbers from a signature fragment.
func normSig(s string) string {
	s = reAddr.ReplaceAllString(s, "0xADDR")
	return reNum.ReplaceAllString(s, "N")
}

func deepEq(a, b any) bool { return reflect.DeepEqual(a, b) }

// firstDiff describes where two byte strings first differ.
func firstDiff(a, b []byte) string {
	n := min(len(a), len(b))
	for i := 0; i < n; i++ {
		if a[i] != b[i] {
			return fmt.Sprintf("first difference at byte %d (%#x vs %#x), lengths %d/%d", i, a[i], b[i], len(a), len(b))
		}
	}
	return fmt.Sprintf("one is a prefix of the other, lengths %d/%d", len(a), len(b))
}
