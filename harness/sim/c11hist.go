package sim

import (
	"errors"
	"fmt"
	"io"
	"time"

	"github.com/wkhere/bcl"

	"verifharness/prng"
	"verifharness/simio"
)

// History for C11: the call under test is not the first one the process makes. Before it,
// other calls end in every way a call can end badly - a read error after the parser had
// already failed, a lexical failure with input left, a read error at the first read, a Close
// that fails, a read error together with data - and then a valid, multi-read input must still
// be parsed, closed once, and returned. This runs outside the synctest bubble (whatever the
// library keeps between calls - pooled channels, buffers - could not cross bubbles) with
// ungated simulated files; a call that has not returned after 20 s is a hang. Seeded like
// everything else; no oracle depends on timing other than that bound.

var c11HistHung bool

type histCall struct {
	src    []byte
	script []simio.ReadStep
	cerr   bool
}

func c11HistCalls(r *prng.R) []histCall {
	filler := []byte("print 1\nprint 2\nprint 3\n")
	poisons := []histCall{
		{src: append([]byte("x = 1\nprint )\n"), filler...), script: []simio.ReadStep{{N: 8}, {N: 9}, {Err: true}}},
		{src: append([]byte("print )\n"), filler...), script: []simio.ReadStep{{N: 8}, {Err: true, N: 5}}},
		{src: append([]byte("print 1 @ 2\n"), filler...), script: []simio.ReadStep{{N: 4}, {N: 4}, {N: 4}, {N: 4}}},
		{src: filler, script: []simio.ReadStep{{Err: true}}},
		{src: filler, script: []simio.ReadStep{{N: 6}, {N: 6}}, cerr: true},
		{src: append([]byte("def a {\n"), filler...), script: []simio.ReadStep{{N: 3}, {N: 300, EOF: true}}},
		{src: append([]byte("\"unterminated\n"), filler...), script: []simio.ReadStep{{N: 20}, {Err: true}}},
	}
	var out []histCall
	for k := r.Range(1, 3); k > 0; k-- {
		out = append(out, poisons[r.Intn(len(poisons))])
	}
	return out
}

type histResult struct {
	returned bool
	err      error
	panicked string
	closes   int
	reads    int
}

func c11HistRun(api int, c histCall) histResult {
	f := simio.NewSimFile(nil, simio.FileCfg{Name: "h.bcl", Data: c.src, Script: c.script, CloseErr: c.cerr})
	var hr histResult
	done := make(chan struct{})
	go func() {
		defer close(done)
		defer func() {
			if x := recover(); x != nil {
				hr.panicked = panicSig(x)
			}
		}()
		opts := []bcl.Option{bcl.OptLogger(io.Discard), bcl.OptOutput(io.Discard)}
		switch api {
		case 1:
			_, _, hr.err = bcl.InterpretFile(f, opts...)
		case 2:
			hr.err = bcl.UnmarshalFile(f, &UTarget{}, opts...)
		default:
			_, hr.err = bcl.ParseFile(f, opts...)
		}
	}()
	select {
	case <-done:
		hr.returned = true
	case <-time.After(20 * time.Second):
	}
	Beat()
	if hr.returned {
		// Close runs in a goroutine of the call; give it a moment before counting
		for i := 0; i < 200 && f.Stats().Closes == 0; i++ {
			time.Sleep(time.Millisecond)
		}
	}
	st := f.Stats()
	hr.closes, hr.reads = st.Closes, st.Reads
	return hr
}

func c11History(sc *Scenario, o *Outcome) {
	if c11HistHung {
		return
	}
	r := prng.New(sc.Seed, "c11hist", sc.Int("histidx", sc.Idx))
	api := r.Intn(3)
	for _, c := range c11HistCalls(r) {
		hr := c11HistRun(r.Intn(3), c)
		o.Evals++
		if !hr.returned {
			c11HistHung = true
			o.viol("C11", "hang", "history:a call that ends badly does not return", fmt.Sprintf("input %q did not return within 20 s (outside the bubble, ungated file)", short(string(c.src), 60)), sc)
			return
		}
	}
	valid := []byte("def srv \"a\" {\n  port = 8080\n  host = \"h\" + \"1\"\n}\nvar n = 3\nprint n * 2\nprint \"ok\"\ndef srv \"b\" { port = 1 }\nprint \"done\"\n")
	var script []simio.ReadStep
	step := r.Range(1, 12)
	for n := 0; n < len(valid); n += step {
		script = append(script, simio.ReadStep{N: step})
	}
	if _, err := bcl.Parse(valid, "h.bcl", bcl.OptLogger(io.Discard), bcl.OptOutput(io.Discard)); err != nil {
		o.probe("history_input_not_accepted", 1) // the tree under test rejects the fixed input in memory too: not this check's business
		return
	}
	hr := c11HistRun(api, histCall{src: valid, script: script})
	o.Evals++
	apiName := []string{"ParseFile", "InterpretFile", "UnmarshalFile"}[api]
	switch {
	case !hr.returned:
		c11HistHung = true
		o.viol("C11", "hang", "history:a valid input does not return after earlier calls that ended badly", fmt.Sprintf("%s of a valid input in %d-byte reads did not return within 20 s after earlier failed calls in the same process (reads delivered: %d, Close calls: %d)", apiName, step, hr.reads, hr.closes), sc)
	case hr.panicked != "":
		o.viol("C11", "panic", "history:"+normSig(hr.panicked), apiName+" of a valid input panicked after earlier failed calls: "+hr.panicked, sc)
	case hr.err != nil && !(api == 2 && !errors.Is(hr.err, io.EOF)):
		// UnmarshalFile into UTarget may legitimately fail to bind; the file handling is judged below
		o.viol("C11", "history", "history:a valid input fails after earlier calls that ended badly", fmt.Sprintf("%s: %v", apiName, hr.err), sc)
	case hr.closes != 1:
		o.viol("C11", "close", "history:Close count after earlier calls that ended badly", fmt.Sprintf("%s of a valid input closed its input %d times", apiName, hr.closes), sc)
	}
	o.probe("history_runs", 1)
}
