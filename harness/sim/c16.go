package sim

import (
	"bytes"
	"encoding/json"
	"fmt"
	"runtime"
	"strings"
	"testing"

	"github.com/wkhere/bcl"

	"verifharness/gen"
	"verifharness/prng"
	"verifharness/simio"
)

// C16: same input, same outcome.
type c16 struct{}

func init() { register(c16{}) }

func (c16) ID() string { return "C16" }
func (c16) Rule() string {
	return "one run = one fixed input (and Unmarshal target type) evaluated repeatedly: R in-process repetitions of Parse+Execute+Bind (R=32 quick, 256 thorough for inputs that end in Bind) interleaved with calls on other inputs (history), 4 runs of the file pipeline under different seeded gate schedules, Execute twice on one Prog with Dump before, between and after; " +
		"every run index is also executed in three separate worker processes at GOMAXPROCS 1, 4 and 16 and the parent compares the outcome digests (dump bytes | output | log | canonical blocks | binding | error | %#v of the target); " +
		"non-trivial iff at least two evaluations were compared; distinct = distinct source hashes. Map iteration order cannot be scheduled: it is sampled by the repetitions and the fresh processes"
}

// Unmarshal targets chosen to expose order dependence.
type tgtAB struct {
	Name string
	AB   int
}
type tgtInner struct {
	Name  string
	Inner struct {
		Name string
		V    int
	}
	X int
}
type tgtMism struct {
	Name string
	X    int
	Y    string
	Z    bool
	W    float64
}
type tgtTags struct {
	Name string
	P    int    `bcl:"pp"`
	Q    int    `bcl:"qq"`
	R    string `bcl:"rr"`
	S    int    `bcl:"ss"`
	U    bool   `bcl:"uu"`
}
type tgtTag struct {
	Name  string
	Alpha int `bcl:"a_b"`
	Ab    int
}

// Two distinct struct types with one and the same name (function-local types), with the bcl
// tag on different field positions: anything the library remembers per type *name* rather
// than per type leaks from one into the other.
func localCfgA() any {
	type cfg struct {
		Name    string
		Primary string `bcl:"addr"`
		Backup  string
		Port    int
		Spare1  int
		Spare2  int
		Listen  int `bcl:"listen"`
	}
	return &cfg{}
}
func localCfgB() any {
	type cfg struct {
		Name    string
		Backup  string
		Port    int    `bcl:"listen"`
		Primary string `bcl:"addr"`
	}
	return &cfg{}
}

var localCfgSrcA = []byte("def cfg \"a\" { addr = \"10.0.0.1\"; backup = \"b\"; port = 80 }\nbind cfg -> struct\n")
var localCfgSrcB = []byte("def cfg \"b\" { addr = \"10.0.0.2\"; backup = \"c\"; listen = 81 }\nbind cfg -> struct\n")

// historyDigest binds both same-named types, in an order that depends on the worker
// process (its GOMAXPROCS setting): the parent compares the digests of the three passes, so
// a result that depends on which type the process saw first shows as a cross-process difference.
func historyDigest() string {
	bindOne := func(src []byte, tg any) (res string) {
		defer func() {
			if x := recover(); x != nil {
				res = "panic: " + panicSig(x)
			}
		}()
		var out, log bytes.Buffer
		err := bcl.Unmarshal(src, tg, bcl.OptOutput(&out), bcl.OptLogger(&log))
		return fmt.Sprintf("%+v|%s", tg, errText(err))
	}
	var a, b string
	switch runtime.GOMAXPROCS(0) {
	case 4:
		b = bindOne(localCfgSrcB, localCfgB())
		a = bindOne(localCfgSrcA, localCfgA())
	default:
		a = bindOne(localCfgSrcA, localCfgA())
		b = bindOne(localCfgSrcB, localCfgB())
	}
	return digest(a, b)
}

// tgtPtr has a pointer in it: rendering it, or an error that mentions it, must not depend on
// where the allocator put things.
type tgtPtr struct {
	Name string
	AB   int
	P    *int
	M    map[string]*tgtAB
}

func newTarget(kind string) any {
	switch kind {
	// targets Bind refuses (the usual slips: one & too many, a value instead of a pointer, a
	// slice for a struct binding, something that is no struct at all), holding pointers
	case "rej-ptrptr":
		p := &tgtPtr{P: new(int), M: map[string]*tgtAB{"k": {}}}
		return &p
	case "rej-value":
		return tgtPtr{P: new(int), M: map[string]*tgtAB{"k": {}}}
	case "rej-slice":
		return &[]tgtPtr{{P: new(int)}, {M: map[string]*tgtAB{"k": {}}}}
	case "rej-chan":
		return make(chan *tgtPtr, 1)
	case "rej-func":
		return func() *tgtPtr { return nil }
	case "ab":
		return &tgtAB{}
	case "ab-slice":
		return &[]tgtAB{}
	case "inner":
		return &tgtInner{}
	case "inner-slice":
		return &[]tgtInner{}
	case "mism":
		return &tgtMism{}
	case "mism-slice":
		return &[]tgtMism{}
	case "tag":
		return &tgtTag{}
	case "tags":
		return &tgtTags{}
	case "tags-slice":
		return &[]tgtTags{}
	}
	return &UTarget{}
}

// orderSource writes a program whose binding is order-sensitive for a
// target kind.
func orderSource(r *prng.R, kind string) string {
	var sb strings.Builder
	if kind == "dups" {
		// several named top-level blocks defined more than once each, interleaved
		keys := [][2]string{{"srv", "a"}, {"srv", "b"}, {"db", "main"}, {"t1", "x"}, {"zone", "eu"}, {"acl", "k"}}
		var defs [][2]string
		for _, i := range r.Perm(len(keys))[:r.Range(2, 5)] {
			for n := r.Range(2, 3); n > 0; n-- {
				defs = append(defs, keys[i])
			}
		}
		for _, i := range r.Perm(len(defs)) {
			fmt.Fprintf(&sb, "def %s %q { v = %d }\n", defs[i][0], defs[i][1], r.Range(1, 99))
		}
		return sb.String()
	}
	if kind == "print" {
		// block values with several fields reach the output: printed directly, through a
		// variable, nested in another block value
		sb.WriteString("def outer \"o\" {\n")
		cands := []string{`a = 1`, `b = "two"`, `c = 3.5`, `d = true`, `e = 5`, `f = 6`, `g = nil`, `h = "x" + "y"`, `i = 1 + 2`, `k = false`}
		nb := r.Range(1, 3)
		for b := 0; b < nb; b++ {
			fmt.Fprintf(&sb, "  def inner%d {\n", b)
			for _, i := range r.Perm(len(cands))[:r.Range(2, 8)] {
				fmt.Fprintf(&sb, "    %s\n", cands[i])
			}
			if b > 0 && r.Chance(1, 2) {
				sb.WriteString("    def deeper { x = 1; y = 2; z = 3 }\n    w = deeper\n")
			}
			sb.WriteString("  }\n")
			fmt.Fprintf(&sb, "  print inner%d\n", b)
			if r.Chance(1, 2) {
				fmt.Fprintf(&sb, "  var v%d = inner%d\n  print v%d\n", b, b, b)
			}
		}
		sb.WriteString("  def other \"x\" { p = 1; q = 2 }\n  last = inner0\n}\n")
		if r.Chance(1, 2) {
			sb.WriteString("bind outer -> struct\n")
		}
		return sb.String()
	}
	slice := strings.HasSuffix(kind, "-slice")
	nblocks := 1
	if slice {
		nblocks = r.Range(1, 3)
		if r.Chance(1, 12) {
			nblocks = r.Range(513, 640) // a slice long enough for any "do it in parallel" idea
		}
	}
	bt := "t1"
	for b := 0; b < nblocks; b++ {
		switch strings.TrimSuffix(kind, "-slice") {
		case "ab", "tag":
			bt = prng.Pick(r, []string{"tgt_ab", "tgtab"})
			if kind == "tag" {
				bt = "tgt_tag"
			}
			fmt.Fprintf(&sb, "def %s \"b%d\" {\n", bt, b)
			keys := []string{"a_b", "ab", "A_B", "aB", "a__b", "AB"}
			n := r.Range(2, 4)
			for i := 0; i < n; i++ {
				k := prng.Pick(r, keys)
				fmt.Fprintf(&sb, "  %s = %d\n", k, r.Range(1, 99))
			}
			sb.WriteString("}\n")
		case "tags":
			bt = "tgt_tags"
			fmt.Fprintf(&sb, "def %s \"b%d\" {\n", bt, b)
			cands := []string{`pp = 1`, `qq = 2`, `rr = "r"`, `ss = 4`, `uu = true`, `pp = ""`, `qq = true`, `rr = 3`, `ss = nil`, `uu = 1.5`}
			seen := map[string]bool{}
			for i := r.Range(3, 5); i > 0; i-- {
				c := prng.Pick(r, cands)
				k := c[:2]
				if seen[k] {
					continue
				}
				seen[k] = true
				fmt.Fprintf(&sb, "  %s\n", c)
			}
			sb.WriteString("}\n")
		case "inner":
			bt = "tgt_inner"
			fmt.Fprintf(&sb, "def %s \"b%d\" {\n  x = %d\n", bt, b, r.Intn(50))
			n := r.Range(2, 3)
			for i := 0; i < n; i++ {
				fmt.Fprintf(&sb, "  def inner \"%c\" { v = %d }\n", 'p'+rune(i), r.Range(1, 99))
			}
			sb.WriteString("}\n")
		default:
			bt = "tgt_mism"
			fmt.Fprintf(&sb, "def %s \"b%d\" {\n", bt, b)
			// several faulty fields at once: wrong types and unknown names
			cands := []string{`x = "notint"`, `y = 5`, `z = 1.5`, `w = true`, `nosuch = 1`, `other_missing = "q"`, `x = 3`, `y = "ok"`, `z = true`, `w = 2.5`}
			if nblocks > 100 && !r.Chance(1, 60) {
				cands = cands[6:] // mostly well-typed blocks; a few faulty ones, each in its own way
			}
			n := r.Range(2, 5)
			seen := map[string]bool{}
			for i := 0; i < n; i++ {
				c := prng.Pick(r, cands)
				k := strings.SplitN(c, " ", 2)[0]
				if seen[k] {
					continue
				}
				seen[k] = true
				fmt.Fprintf(&sb, "  %s\n", c)
			}
			sb.WriteString("}\n")
		}
	}
	if slice {
		fmt.Fprintf(&sb, "bind %s:all -> slice\n", bt)
	} else {
		fmt.Fprintf(&sb, "bind %s -> struct\n", bt)
	}
	return sb.String()
}

func (c16) Gen(seed uint64, idx int, tier string) *Scenario {
	r := prng.New(seed, "C16", idx)
	sc := &Scenario{Prop: "C16", Seed: seed, Idx: idx, API: "ParseFile", Name: "f.bcl"}
	if r.Chance(1, 2) {
		kind := prng.Pick(r, []string{"ab", "ab-slice", "inner", "inner-slice", "mism", "mism-slice", "tag", "tags", "tags-slice", "print", "dups", "rej"})
		sc.Class = "order:" + kind
		sc.SetStr("target", kind)
		if kind == "rej" {
			sc.SetStr("target", prng.Pick(r, []string{"rej-ptrptr", "rej-value", "rej-slice", "rej-chan", "rej-func"}))
			kind = prng.Pick(r, []string{"ab", "mism", "ab-slice"})
		}
		sc.Src = []byte(orderSource(r, kind))
	} else {
		class := prng.Pick(r, []string{"valid", "valid", "valid", "runtime-error", "runtime-error", "syntax-early", "syntax-late", "lex-late", "many-errors", "soup", "raw"})
		sc.Class = class
		if class == "runtime-error" {
			// fails at run time with locals on the stack and, for some plants, a block still open
			cfg := gen.DefaultCfg(r)
			cfg.Safe = true
			p := gen.Generate(r, cfg)
			gen.AddPlant(r, p, prng.Pick(r, gen.RuntimePlants), cfg)
			sc.Src = p.Src
		} else {
			sc.Src, _, _ = genInput(r, class, tier)
		}
		sc.SetStr("target", "generic")
	}
	kind := prng.Pick(r, []string{"whole", "geometric", "fixed", "twocut", "zeros", "eofdata"})
	var p *gen.Prog
	sc.Reads = MakeReads(r, len(sc.Src), kind, p)
	if kind == "zeros" {
		sc.Reads = WithZeros(r, sc.Reads, 2)
	}
	if kind == "eofdata" {
		sc.Reads = MarkEOF(sc.Reads, len(sc.Src))
	}
	if r.Chance(1, 4) {
		// a read error somewhere: the outcome must still be one fixed function of input and script
		at := r.Intn(len(sc.Reads) + 1)
		for len(sc.Reads) <= at {
			sc.Reads = append(sc.Reads, simio.ReadStep{})
		}
		sc.Reads[at] = simio.ReadStep{Err: true, N: prng.Pick(r, []int{0, 0, 5})}
		sc.Reads = sc.Reads[:at+1]
	}
	sc.GateRead, sc.GateLog, sc.GateClose, sc.GateName = true, true, true, r.Chance(1, 2)
	sc.SetInt("reps", 32)
	if tier == "thorough" {
		sc.SetInt("reps", 256)
	}
	sc.SetInt("hseed", r.Intn(1<<30))
	return sc
}

// noisyInputs end in a runtime error after a warning, in a parse error after a diagnostic, or
// succeed after a warning: whatever a call still holds when it ends that way belongs to it.
var noisyInputs = []string{
	"def t \"a\" { x = 1 }\nbind t -> struct\nbind t -> struct\nprint 1/0\n",
	"def t \"a\" { x = 1 }\nbind t -> struct\nbind t -> struct\nprint \"w\"\n",
	"print \"before\"\nprint )\nprint (\n",
	"print \"p\"\nprint -\"s\"\n",
	"print 1 @\n",
}

// sharedEval is one Interpret (or Parse+Dump+Execute) through the caller's long-lived options;
// it returns what this call added to the shared writers, its error and its dump.
func sharedEval(opts []bcl.Option, ob, lb *bytes.Buffer, src []byte, name string, viaParse bool, failDump int) []string {
	o0, l0 := ob.Len(), lb.Len()
	var errT, pan, dump string
	func() {
		defer func() {
			if x := recover(); x != nil {
				pan = panicSig(x)
			}
		}()
		if !viaParse {
			_, _, err := bcl.Interpret(src, opts...)
			errT = errText(err)
			return
		}
		p, err := bcl.Parse(src, name, opts...)
		if err != nil {
			errT = "parse: " + errText(err)
			return
		}
		if failDump >= 0 {
			p.Dump(&simio.SimDisk{FailAt: failDump}) // the disk fills up: this dump is lost, nothing else is
		}
		var db bytes.Buffer
		if err := p.Dump(&db); err != nil {
			errT = "dump: " + errText(err)
			return
		}
		dump = db.String()
		_, _, err = bcl.Execute(p)
		errT = errText(err)
	}()
	return []string{"output=" + ob.String()[o0:], "log=" + lb.String()[l0:], "error=" + errT, "panic=" + pan, "dump=" + dump}
}

func c16SharedOptions(sc *Scenario, o *Outcome, hr *prng.R) {
	if len(sc.Src) > 20000 {
		return
	}
	for _, viaParse := range []bool{hr.Chance(1, 2)} {
		// alone, with options of its own
		var ob0, lb0 bytes.Buffer
		alone := sharedEval([]bcl.Option{bcl.OptOutput(&ob0), bcl.OptLogger(&lb0)}, &ob0, &lb0, sc.Src, sc.Name, viaParse, -1)
		var ob, lb bytes.Buffer
		shared := []bcl.Option{bcl.OptOutput(&ob), bcl.OptLogger(&lb)}
		for round := 0; round < 2; round++ {
			// earlier calls through the same options, each compared with itself alone as well
			for k := hr.Range(1, 3); k > 0; k-- {
				ns := []byte(noisyInputs[hr.Intn(len(noisyInputs))])
				var ob1, lb1 bytes.Buffer
				nAlone := sharedEval([]bcl.Option{bcl.OptOutput(&ob1), bcl.OptLogger(&lb1)}, &ob1, &lb1, ns, "noisy.bcl", viaParse, -1)
				nShared := sharedEval(shared, &ob, &lb, ns, "noisy.bcl", viaParse, hr.Intn(40)-1)
				o.Evals++
				if d := diffParts(nAlone, nShared); !sameParts(nAlone, nShared) {
					c := sc.Clone()
					o.viol("C16", "history", "a call through options that served earlier calls differs from the same call alone:"+strings.SplitN(d, ":", 2)[0],
						fmt.Sprintf("input %q, round %d: %s", ns, round, d), c)
					return
				}
			}
			if hr.Chance(1, 2) {
				// a load of a cut file in between
				if len(alone) == 5 && len(alone[4]) > 6+5 {
					cut := []byte(alone[4][5 : 5+hr.Intn(len(alone[4])-5)])
					func() {
						defer func() { recover() }()
						bcl.LoadProg(bytes.NewReader(cut), "cut", shared...)
					}()
				}
			}
			got := sharedEval(shared, &ob, &lb, sc.Src, sc.Name, viaParse, hr.Intn(60)-1)
			o.Evals++
			if d := diffParts(alone, got); !sameParts(alone, got) {
				o.viol("C16", "history", "a call through options that served earlier calls differs from the same call alone:"+strings.SplitN(d, ":", 2)[0],
					fmt.Sprintf("round %d (viaParse=%v): %s", round, viaParse, d), sc)
				return
			}
		}
	}
	o.probe("shared_options", 1)
}

// evalOnce is one complete in-memory evaluation: Parse, Dump, Execute, Bind.
func evalOnce(src []byte, name, target string) (dg string, parts []string) {
	mem := ParseMem(src, name, 0)
	if mem.Panic != "" {
		return digest("panic", mem.Panic), []string{"panic", mem.Panic}
	}
	parts = []string{"parse-error=" + errText(mem.Err), "diagnostics=" + mem.Log}
	if mem.Err != nil {
		return digest(parts...), parts
	}
	d, e1, e2 := DumpProg(mem.Prog)
	parts = append(parts, "dump="+string(d), "dump-error="+e1+e2)
	ex := Exec(mem.Prog, mem.OutBuf, mem.LogBuf, 0)
	parts = append(parts, "output="+ex.Out, "warnings="+ex.Log, "blocks="+ex.Blocks, "binding="+ex.Binding, "error="+ex.Err, "panic="+ex.Panic)
	if ex.Panic == "" && ex.Err == "<nil>" {
		tg := newTarget(target)
		var berr error
		bpanic := ""
		func() {
			defer func() {
				if x := recover(); x != nil {
					bpanic = panicSig(x)
				}
			}()
			berr = bcl.Bind(tg, ex.RawBinding)
		}()
		if strings.HasPrefix(target, "rej-") {
			// the harness must not print addresses itself: only what Bind says is compared
			parts = append(parts, "bind-error="+errText(berr), "bind-panic="+bpanic)
		} else {
			parts = append(parts, fmt.Sprintf("target=%#v", tg), "bind-error="+errText(berr), "bind-panic="+bpanic)
		}
	}
	return digest(parts...), parts
}

func sameParts(a, b []string) bool { return strings.Join(a, "\x00") == strings.Join(b, "\x00") }

func diffParts(a, b []string) string {
	for i := 0; i < len(a) && i < len(b); i++ {
		if a[i] != b[i] {
			k := strings.SplitN(a[i], "=", 2)[0]
			return fmt.Sprintf("%s: %q vs %q", k, short(a[i], 300), short(b[i], 300))
		}
	}
	return fmt.Sprintf("different number of result parts (%d vs %d)", len(a), len(b))
}

func (c16) Run(t *testing.T, sc *Scenario) *Outcome {
	o := &Outcome{}
	target := sc.Str("target")
	reps := sc.Int("reps", 32)
	if !strings.HasPrefix(sc.Class, "order:") {
		reps = 4
	}
	if len(sc.Src) > 8000 {
		reps = 6 // long slices: what varies there is the scheduler and GOMAXPROCS, not map order
	}
	ref, refParts := evalOnce(sc.Src, sc.Name, target)
	o.Digest = ref
	o.Hash = hash64(string(sc.Src))
	hr := prng.New(uint64(sc.Int("hseed", 1)), "history")
	// (d)+(e) repetition with other calls in between
	for i := 1; i < reps; i++ {
		if i%4 == 1 {
			// history: unrelated calls on other inputs
			for k := hr.Range(1, 4); k > 0; k-- {
				other, _, _ := genInput(hr, prng.Pick(hr, []string{"valid", "syntax-late", "soup"}), "quick")
				evalOnce(other, "other.bcl", "generic")
			}
		}
		d, parts := evalOnce(sc.Src, sc.Name, target)
		o.Evals++
		if d != ref {
			c := sc.Clone()
			c.SetInt("diverged_at_repetition", i)
			o.viol("C16", "nondeterminism", "repeating a call in one process gives a different outcome:"+strings.SplitN(diffParts(refParts, parts), ":", 2)[0],
				fmt.Sprintf("repetition %d of %d differs from the first evaluation: %s", i, reps, diffParts(refParts, parts)), c)
			break
		}
	}
	// (d') history through things that outlive a call: one set of Option values (and the writers in
	// them) serving many calls, as a server does that builds its options once; and calls that fail
	// half-way - a Dump onto a disk that fills up, a Load of a cut file, an execution that warns and
	// then fails - before the call whose outcome is compared. What an earlier call left behind must
	// not show in a later one: each call's share of the common writers equals what it writes alone.
	c16SharedOptions(sc, o, hr)
	// (f) Execute twice on one Prog, Dump before, between and after
	mem := ParseMem(sc.Src, sc.Name, 0)
	if mem.Panic == "" && mem.Err == nil {
		// other programs are parsed and run while this Prog is kept: nothing of them may show in it
		other := append([]byte("\n\n# shifted\nvar zz9 = \"x\"\n\n"), sc.Src...)
		if om := ParseMem(other, "other.bcl", 0); om.Panic == "" && om.Err == nil {
			Exec(om.Prog, om.OutBuf, om.LogBuf, 0)
		}
		d0, _, p0 := DumpProg(mem.Prog)
		ex1 := Exec(mem.Prog, mem.OutBuf, mem.LogBuf, 0)
		d1, _, p1 := DumpProg(mem.Prog)
		ex2 := Exec(mem.Prog, mem.OutBuf, mem.LogBuf, 0)
		d2, _, p2 := DumpProg(mem.Prog)
		o.Evals += 2
		if p0+p1+p2 == "" && (!bytes.Equal(d0, d1) || !bytes.Equal(d1, d2)) {
			o.viol("C16", "prog-altered", "executing a Prog alters it (its dump changes)", firstDiff(d0, d1)+" / "+firstDiff(d1, d2), sc)
		}
		if ex1.Digest() != ex2.Digest() {
			o.viol("C16", "prog-altered", "second execution of one Prog differs from the first", describeExecDiff(ex1, ex2), sc)
		}
		// a call that brings writers of its own must not re-wire the Prog for later calls
		func() {
			defer func() { recover() }()
			var ob, lb bytes.Buffer
			bcl.Execute(mem.Prog, bcl.OptOutput(&ob), bcl.OptLogger(&lb))
			o1, l1 := mem.OutBuf.Len(), mem.LogBuf.Len()
			bcl.Execute(mem.Prog)
			plainOut, plainLog := mem.OutBuf.String()[o1:], mem.LogBuf.String()[l1:]
			if ex1.Panic == "" && (plainOut != ex1.Out || plainLog != ex1.Log) {
				o.viol("C16", "prog-altered", "an Execute with writers of its own changes where later executions of the Prog write",
					fmt.Sprintf("after Execute(prog, OptOutput(w)), a plain Execute(prog) wrote %q / %q to the Prog's writers, the first execution wrote %q / %q", short(plainOut, 150), short(plainLog, 100), short(ex1.Out, 150), short(ex1.Log, 100)), sc)
			}
		}()
		// the same program parsed, dumped and executed at once (refParts) must agree with the Prog that waited
		waited := []string{"dump=" + string(d0), "output=" + ex1.Out, "warnings=" + ex1.Log, "error=" + ex1.Err}
		for _, w := range waited {
			k := strings.SplitN(w, "=", 2)[0]
			for _, rp := range refParts {
				if strings.HasPrefix(rp, k+"=") && rp != w {
					o.viol("C16", "history", "a Prog kept while other programs were parsed differs from the same program used at once:"+k,
						fmt.Sprintf("%s: %q vs %q", k, short(w, 300), short(rp, 300)), sc)
				}
			}
		}
		o.probe("exec_twice", 1)
	}
	// (a) the file pipeline under different gate schedules
	var first *PipeResult
	var firstDump []byte
	nsched := 4
	var alt []int
	if sc.Replay {
		// a replay file carries the two concrete schedules that disagreed
		nsched = 2
		json.Unmarshal([]byte(sc.Str("alt_choices")), &alt)
	}
	for k := 0; k < nsched; k++ {
		s2 := sc.Clone()
		s2.Bias = Biases[(k*3+sc.Idx)%len(Biases)]
		s2.Idx = sc.Idx*8 + k // different schedule seed, same input and script
		if sc.Replay && k == 1 {
			s2.Choices = alt
		}
		res := RunPipe(t, s2, false, false)
		o.Steps += res.Steps
		o.Evals++
		checkPipeBasics(t, "C16", s2, res, o)
		if !res.Returned || res.CallerPanic != "" {
			break
		}
		var dump []byte
		if res.Err == nil && res.Prog != nil {
			dump, _, _ = DumpProg(res.Prog)
		}
		if first == nil {
			first, firstDump = res, dump
			continue
		}
		var diffs []string
		if res.ErrText != first.ErrText {
			diffs = append(diffs, fmt.Sprintf("error %q vs %q", res.ErrText, first.ErrText))
		}
		if res.Log != first.Log {
			diffs = append(diffs, fmt.Sprintf("diagnostics %q vs %q", short(res.Log, 200), short(first.Log, 200)))
		}
		if !bytes.Equal(dump, firstDump) {
			diffs = append(diffs, "compiled program: "+firstDiff(dump, firstDump))
		}
		if len(diffs) > 0 {
			c := sc.Clone()
			c.Choices = append([]int{}, first.Choices...)
			c.Replay = true
			ab, _ := json.Marshal(res.Choices)
			c.SetStr("alt_choices", string(ab))
			o.viol("C16", "schedule-dependent", "ParseFile outcome depends on the goroutine schedule",
				fmt.Sprintf("schedule %v vs schedule %v: %s", headInts(res.Choices, 20), headInts(first.Choices, 20), strings.Join(diffs, "; ")), c)
			break
		}
	}
	if first != nil {
		o.Digest = digest(o.Digest, first.ErrText, first.Log, string(firstDump))
	}
	o.Digest = digest(o.Digest, historyDigest())
	o.Nontrivial = o.Evals >= 2
	return o
}
