package sim

import (
	"bytes"
	"fmt"
	"strconv"
	"strings"
	"testing"

	"github.com/wkhere/bcl"

	"verifharness/gen"
	"verifharness/prng"
	"verifharness/simio"
)

// C06: every input ends in a result or an error, never a crash or a hang.
type c06 struct{}

func init() { register(c06{}) }

func (c06) ID() string { return "C06" }
func (c06) Rule() string {
	return "one run = one stored source with a seeded fault (byte flip/drop/insert, token delete/duplicate/replace/transpose, truncation), a literal stressor, a program scaled to just below/at/above an implementation limit (block nesting, locals + temporaries, expression nesting, parentheses, jump distance, repeat count), raw bytes or token soup; " +
		"it is run through Parse+Execute, Interpret and Unmarshal in memory under recover, and through the real ParseFile/InterpretFile/UnmarshalFile goroutines in a synctest bubble under a seeded read partition and gate schedule; " +
		"oracle: every call returns (quiescence => deadlock, wall-clock supervisor => livelock), returns a result or a non-nil error, no panic in the caller, and the worker process survives (a panic in a library goroutine kills it and is attributed by the parent through the journal); " +
		"non-trivial iff the source is non-empty and the fault fired or the limit program reached the VM; distinct = distinct source hashes"
}

// Unmarshal targets whose field names match what the generators write, so that Bind's field
// walk is reached from source text alone. The struct types are anonymous (no type-name check);
// scalar fields take any value; nested blocks meet nested structs two levels deep and a named
// type below that (a clean mismatch error).
type c06Leaf struct{ Name string }
type c06Inner = struct {
	hidden                                                                  any `bcl:"level"` // unexported and tagged: must be refused, not set
	Name                                                                    string
	F, Ff, G, Opt, Level, Remote, Field, Enabled, LocalPort, MaxLatency, H1 any
	Extras, Tunnel, Server, T1, Blk, Point, Db, AB, T                       c06Leaf
}
type c06Target = struct {
	hidden                                                                  any `bcl:"opt"` // unexported and tagged: must be refused, not set
	Name                                                                    string
	F, Ff, G, Opt, Level, Remote, Field, Enabled, LocalPort, MaxLatency, H1 any
	Extras, Tunnel, Server, T1, Blk, Point, Db, AB, T                       c06Inner
	Pt                                                                      *c06Leaf // a pointer where a nested block wants a struct: an error, not a panic
}

// bindValues writes a small program whose bound block holds values of every kind,
// nil included, and nested blocks.
func bindValues(r *prng.R) []byte {
	var sb strings.Builder
	vals := []string{"nil", "1", "2.5", `"s"`, "true", "false", "nil", "1 == 2", `"a" + 1`, "0"}
	fields := []string{"f", "ff", "g", "opt", "level", "remote", "field", "enabled", "local_port", "max_latency", "h_1", "listen", "addr"}
	bt := prng.Pick(r, []string{"t", "tunnel", "server", "blk", "cfg", "cfg"})
	n := r.Range(1, 3)
	if r.Chance(1, 3) {
		sb.WriteString("var u\n")
	}
	for b := 0; b < n; b++ {
		fmt.Fprintf(&sb, "def %s %s{\n", bt, prng.Pick(r, []string{"", `"n" `, `"x.y" `}))
		for k := r.Range(1, 4); k > 0; k-- {
			fmt.Fprintf(&sb, " %s = %s\n", prng.Pick(r, fields), prng.Pick(r, vals))
		}
		if r.Chance(1, 3) {
			fmt.Fprintf(&sb, " def %s %s{ f = %s }\n", prng.Pick(r, []string{"extras", "point", "db", "t1", "pt", "pt"}), prng.Pick(r, []string{"", `"i" `}), prng.Pick(r, vals))
		}
		sb.WriteString("}\n")
	}
	sel := prng.Pick(r, []string{"", ":first", ":last", ":all", ":1"})
	tgt := prng.Pick(r, []string{"struct", "slice"})
	if sel == ":all" {
		tgt = "slice"
	}
	if r.Chance(1, 5) {
		bt = prng.Pick(r, []string{"nosuch", "extras", "point"}) // no toplevel block of this type (perhaps only a child block)
	}
	fmt.Fprintf(&sb, "bind %s%s -> %s\n", bt, sel, tgt)
	return []byte(sb.String())
}

var c06Large = []struct {
	kind string
	n    int
}{{"manyconsts", 67830}, {"manyconsts", 2295}, {"hugeident", 70000}, {"hugestring", 300000}, {"manyconsts", 16500}, {"hugestring", 70000}}

func (c06) Gen(seed uint64, idx int, tier string) *Scenario {
	r := prng.New(seed, "C06", idx)
	sc := &Scenario{Prop: "C06", Seed: seed, Idx: idx, Name: "f.bcl"}
	big := tier == "thorough" && r.Chance(1, 20) || r.Chance(1, 400)
	switch r.Weighted(10, 6, 5, 2, 2, 3) {
	case 5:
		sc.Src = bindValues(r)
		sc.Class = "bind-values"
		if r.Chance(1, 3) {
			sc.Src, _ = gen.Damage(r, &gen.Prog{Src: sc.Src})
			sc.Class = "bind-values-damaged"
		}
	case 0:
		cfg := gen.DefaultCfg(r)
		cfg.SmallInts = true // large literals have a class of their own; here they would only feed the exclusion filter
		p := gen.Generate(r, cfg)
		var kind string
		sc.Src, kind = gen.Damage(r, p)
		sc.Class = "damage:" + kind
	case 1:
		sc.Src = gen.LiteralStress(r)
		sc.Class = "literal"
	case 2:
		kind := prng.Pick(r, gen.LimitKinds)
		sc.Src = gen.LimitProgram(r, kind, big)
		sc.Class = "limit:" + kind
	case 3:
		sc.Src = gen.RawBytes(r, r.Range(0, 400))
		sc.Class = "raw"
	default:
		sc.Src = gen.TokenSoup(r, r.Range(1, 64))
		sc.Class = "soup"
	}
	// the large sizes (operands of three and more bytes, buffers beyond 64 KiB) are visited by
	// the first run indices of every batch, not left to a 1-in-400 draw
	if idx < len(c06Large) {
		gen.ForceN = c06Large[idx].n
		sc.Src = gen.LimitProgram(r, c06Large[idx].kind, true)
		gen.ForceN = 0
		sc.Class = "limit:" + c06Large[idx].kind
	}
	sc.API = prng.Pick(r, []string{"ParseFile", "InterpretFile", "InterpretFile", "UnmarshalFile"})
	if r.Chance(1, 5) {
		sc.Opts = r.Intn(8)
		if len(sc.Src) > 20000 {
			sc.Opts &^= OptTrace | OptDisasm
		}
	}
	kind := prng.Pick(r, []string{"whole", "whole", "geometric", "fixed", "twocut", "zeros", "eofdata", "page"})
	if len(sc.Src) > 3000 && kind == "fixed" {
		kind = "geometric"
	}
	sc.SetStr("partition", kind)
	sc.Reads = MakeReads(r, len(sc.Src), kind, nil)
	if kind == "zeros" {
		sc.Reads = WithZeros(r, sc.Reads, 2)
	}
	if kind == "eofdata" {
		sc.Reads = MarkEOF(sc.Reads, len(sc.Src))
	}
	if r.Chance(1, 3) && len(sc.Src) < 20000 {
		sc.GateRead = true
		sc.GateLog = r.Chance(1, 2)
		sc.GateClose = r.Chance(1, 2)
		sc.Bias = prng.Pick(r, Biases)
	}
	return sc
}

// hugeResult is the conservative pre-filter for the inputs the property excludes: those whose
// legitimate result would itself exhaust memory (string repetition beyond 2^20 bytes). It
// never looks at what bcl does; it scans the source for integer literals next to a '*' and
// bounds the product of the literal factors along any one chain of '*' times the size of the source (no string can start
// out longer than the source). Counts that reach a '*' through a variable are not seen here:
// those runs are stopped by the worker's address-space limit and classified by the parent
// (out of memory in a source that contains a '*' is the excluded case, not a violation).
func hugeResult(src []byte) bool {
	type tk struct {
		kind byte // 'i' int literal, 'n' identifier, '*' star, 'o' other
		val  float64
	}
	var toks []tk
	for i := 0; i < len(src); {
		c := src[i]
		switch {
		case c >= '0' && c <= '9':
			j := i
			for j < len(src) && (src[j] >= '0' && src[j] <= '9' || src[j] >= 'a' && src[j] <= 'f' || src[j] >= 'A' && src[j] <= 'F' || src[j] == 'x' || src[j] == 'X' || src[j] == '.' || src[j] == '+' && j > i && (src[j-1] == 'e' || src[j-1] == 'E')) {
				j++
			}
			lit := string(src[i:j])
			v := 0.0
			if u, err := strconv.ParseUint(lit, 0, 64); err == nil {
				v = float64(u)
			} else if f, err := strconv.ParseFloat(lit, 64); err == nil {
				v = f
			} else {
				v = 1e30 // not a literal bcl will accept, but be conservative
			}
			toks = append(toks, tk{'i', v})
			i = j
		case c == '_' || c >= 'a' && c <= 'z' || c >= 'A' && c <= 'Z':
			j := i
			for j < len(src) && (src[j] == '_' || src[j] >= 'a' && src[j] <= 'z' || src[j] >= 'A' && src[j] <= 'Z' || src[j] >= '0' && src[j] <= '9') {
				j++
			}
			toks = append(toks, tk{'n', 0})
			i = j
		case c == '"':
			j := i + 1
			for j < len(src) && src[j] != '"' && src[j] != '\n' {
				if src[j] == '\\' {
					j++
				}
				j++
			}
			toks = append(toks, tk{'o', 0})
			i = j + 1
		case c == '#':
			for i < len(src) && src[i] != '\n' && src[i] != '\r' {
				i++
			}
		case c == '*':
			toks = append(toks, tk{'*', 0})
			i++
		case c == ' ' || c == '\t' || c == '\n' || c == '\r' || c == '(' || c == ')' || c == '+' || c == '-' || c == '\v' || c == '\f' || c >= 0x80:
			i++ // layout, grouping and signs do not separate a factor from its '*'
		default:
			toks = append(toks, tk{'o', 0})
			i++
		}
	}
	// the largest product of literal factors along one chain of '*' (a * b * c ...)
	fac := func(j int) float64 {
		if j >= 0 && j < len(toks) && toks[j].kind == 'i' && toks[j].val > 1 {
			return toks[j].val
		}
		return 1
	}
	worst, chain := 1.0, 1.0
	for i, t := range toks {
		if t.kind != '*' {
			continue
		}
		if i >= 2 && toks[i-2].kind == '*' {
			chain *= fac(i + 1) // continues the chain: the left operand was counted already
		} else {
			chain = fac(i-1) * fac(i+1)
		}
		if chain > worst {
			worst = chain
		}
	}
	return worst*float64(len(src)+1) > 1<<34
}

func (c06) Run(t *testing.T, sc *Scenario) *Outcome {
	o := &Outcome{}
	if hugeResult(sc.Src) {
		// excluded by the property: the legitimate result may not fit in memory
		o.Skipped = true
		o.probe("excluded_possibly_huge_result", 1)
		o.probe("excluded:"+sc.Class, 1)
		return o
	}
	o.Hash = hash64(string(sc.Src))
	o.Nontrivial = len(sc.Src) > 0
	reached := false
	call := func(what string, f func() error) {
		var err error
		p := ""
		func() {
			defer func() {
				if x := recover(); x != nil {
					p = panicSig(x)
				}
			}()
			err = f()
		}()
		_ = err
		o.Evals++
		if p != "" {
			if strings.Contains(p, "Repeat output length overflow") && bytes.IndexByte(sc.Src, '*') >= 0 {
				o.probe("excluded_result_too_large", 1) // the excluded case: the legitimate result does not fit
				return
			}
			o.viol("C06", "panic", what+":"+normSig(p), fmt.Sprintf("%s panicked in the calling goroutine: %s", what, p), sc)
		}
	}
	// in memory
	var prog *bcl.Prog
	var out, log simio.Bounded
	call("Parse", func() error {
		var err error
		prog, err = bcl.Parse(sc.Src, sc.Name, bcl.OptOutput(&out), bcl.OptLogger(&log), bcl.OptDisasm(sc.Opts&OptDisasm != 0), bcl.OptStats(sc.Opts&OptStats != 0))
		if err != nil {
			prog = nil
		}
		return err
	})
	if prog != nil {
		reached = true
		call("Execute", func() error {
			_, _, err := bcl.Execute(prog, bcl.OptOutput(&out), bcl.OptLogger(&log), bcl.OptTrace(sc.Opts&OptTrace != 0), bcl.OptStats(sc.Opts&OptStats != 0))
			return err
		})
		call("Dump", func() error { return prog.Dump(&bytes.Buffer{}) })
	}
	call("Interpret", func() error {
		var o2, l2 simio.Bounded
		_, _, err := bcl.Interpret(sc.Src, bcl.OptOutput(&o2), bcl.OptLogger(&l2))
		return err
	})
	call("Unmarshal", func() error {
		var o2, l2 simio.Bounded
		return bcl.Unmarshal(sc.Src, &UTarget{}, bcl.OptOutput(&o2), bcl.OptLogger(&l2))
	})
	call("Unmarshal(struct target)", func() error {
		var o2, l2 simio.Bounded
		return bcl.Unmarshal(sc.Src, &c06Target{}, bcl.OptOutput(&o2), bcl.OptLogger(&l2))
	})
	if strings.HasPrefix(sc.Class, "bind-values") || sc.Idx%7 == 0 {
		// two distinct struct types that share a name, of different sizes, one after the other
		call("Unmarshal(same-named type A)", func() error {
			var o2, l2 simio.Bounded
			return bcl.Unmarshal(sc.Src, localCfgA(), bcl.OptOutput(&o2), bcl.OptLogger(&l2))
		})
		call("Unmarshal(same-named type B)", func() error {
			var o2, l2 simio.Bounded
			type cfg struct {
				Name string
				F    any `bcl:"listen"`
			}
			return bcl.Unmarshal(sc.Src, &cfg{}, bcl.OptOutput(&o2), bcl.OptLogger(&l2))
		})
	}
	call("Unmarshal(slice target)", func() error {
		var o2, l2 simio.Bounded
		return bcl.Unmarshal(sc.Src, &[]c06Target{}, bcl.OptOutput(&o2), bcl.OptLogger(&l2))
	})
	if reached {
		o.probe("reached_vm", 1)
	}
	o.fault(sc.Class, 1)
	// through the file pipeline: a panic in its goroutines kills this process;
	// the parent attributes the death to this run
	res := RunPipe(t, sc, false, false)
	o.Steps = res.Steps
	o.Evals++
	checkPipeBasics(t, "C06", sc, res, o)
	if res.Returned && res.CallerPanic == "" && res.Err == nil && sc.API == "ParseFile" && res.Prog == nil {
		o.viol("C06", "no-result", "ParseFile returned neither a program nor an error", "", sc)
	}
	return o
}
