// Package sim is the simulator proper: the bubble scheduler, the scenario
// (replay) format, the per-property workloads and oracles, and the worker
// entry point.
package sim

import (
	"encoding/json"
	"fmt"
	"os"
	"sort"
	"strings"

	"verifharness/simio"
)

// Scenario is one concrete simulated execution: input bytes, the script of
// every simulated object, knob settings and the list of scheduler choices.
// It is also the replay file: running a Scenario is a pure function of it and
// of the code under test.
type Scenario struct {
	Prop  string `json:"prop"`
	Seed  uint64 `json:"seed"`
	Idx   int    `json:"idx"`
	Class string `json:"class,omitempty"` // workload class (informational)

	Src  []byte `json:"src,omitempty"` // source text or stored bytes
	Name string `json:"name,omitempty"`
	API  string `json:"api,omitempty"`
	Opts int    `json:"opts,omitempty"` // bit0 disasm, bit1 trace, bit2 stats

	GateRead  bool `json:"gate_read,omitempty"`
	GateClose bool `json:"gate_close,omitempty"`
	GateName  bool `json:"gate_name,omitempty"`
	GateLog   bool `json:"gate_log,omitempty"`
	GateOut   bool `json:"gate_out,omitempty"`

	CloseErr bool `json:"close_err,omitempty"` // Close returns an error
	StatSize int  `json:"stat_size,omitempty"` // size reported by Stat (stale metadata); 0 = true size
	RawLog   bool `json:"raw_log,omitempty"`   // unsynchronised log writer read by the caller right after the return

	Reads   []simio.ReadStep `json:"reads,omitempty"`
	Fill    int              `json:"fill,omitempty"`
	Bias    string           `json:"bias,omitempty"`
	Choices []int            `json:"choices,omitempty"`
	Replay  bool             `json:"replay,omitempty"` // Choices are authoritative (missing entries mean 0)

	// property-specific integers and strings (cut points, versions, ...)
	Ints map[string]int    `json:"ints,omitempty"`
	Strs map[string]string `json:"strs,omitempty"`
	// further byte payloads (e.g. second source, argv) keyed by name
	Blobs map[string][]byte `json:"blobs,omitempty"`
	// token end offsets and plants for source-position oracles
	TokEnds []int       `json:"tok_ends,omitempty"`
	Plants  []PlantInfo `json:"plants,omitempty"`

	// filled in when written as a replay file
	ExpectSig  string   `json:"expect_sig,omitempty"`
	ExpectKind string   `json:"expect_kind,omitempty"`
	Detail     string   `json:"detail,omitempty"`
	Reproduced *bool    `json:"reproduced,omitempty"`
	Trace      []string `json:"trace,omitempty"`
	Faults     []string `json:"faults,omitempty"`
}

type PlantInfo struct {
	Kind    string `json:"kind"`
	Off     int    `json:"off"` // expected byte offset of the diagnostic
	Lo, Hi  int    // statement byte range (compile plants)
	Match   string `json:"match"`
	Runtime bool   `json:"runtime,omitempty"`
	Warning bool   `json:"warning,omitempty"`
	Lex     bool   `json:"lex,omitempty"`
	Exact   bool   `json:"exact,omitempty"` // compile plant whose offending token is beyond doubt
	TokLo   int    `json:"tok_lo,omitempty"`
}

func (s *Scenario) Int(k string, def int) int {
	if v, ok := s.Ints[k]; ok {
		return v
	}
	return def
}
func (s *Scenario) SetInt(k string, v int) {
	if s.Ints == nil {
		s.Ints = map[string]int{}
	}
	s.Ints[k] = v
}
func (s *Scenario) Str(k string) string { return s.Strs[k] }
func (s *Scenario) SetStr(k, v string) {
	if s.Strs == nil {
		s.Strs = map[string]string{}
	}
	s.Strs[k] = v
}
func (s *Scenario) SetBlob(k string, v []byte) {
	if s.Blobs == nil {
		s.Blobs = map[string][]byte{}
	}
	s.Blobs[k] = v
}

func (s *Scenario) Clone() *Scenario {
	b, _ := json.Marshal(s)
	var c Scenario
	json.Unmarshal(b, &c)
	return &c
}

func LoadScenario(path string) (*Scenario, error) {
	b, err := os.ReadFile(path)
	if err != nil {
		return nil, err
	}
	var s Scenario
	if err := json.Unmarshal(b, &s); err != nil {
		return nil, err
	}
	return &s, nil
}

func (s *Scenario) Save(path string) error {
	b, err := json.MarshalIndent(s, "", " ")
	if err != nil {
		return err
	}
	return os.WriteFile(path, b, 0o644)
}

// Summary renders a scenario compactly for evidence samples.
func (s *Scenario) Summary() map[string]any {
	m := map[string]any{"idx": s.Idx, "class": s.Class}
	if len(s.Src) > 0 {
		src := string(s.Src)
		if len(src) > 160 {
			src = src[:160] + fmt.Sprintf("...(%d bytes)", len(s.Src))
		}
		m["src"] = src
	}
	if s.API != "" {
		m["api"] = s.API
	}
	if len(s.Reads) > 0 {
		var parts []string
		for i, r := range s.Reads {
			if i >= 12 {
				parts = append(parts, fmt.Sprintf("...(%d steps)", len(s.Reads)))
				break
			}
			p := fmt.Sprint(r.N)
			if r.Zero {
				p = "zero"
			}
			if r.EOF {
				p += "+eof"
			}
			if r.Err {
				p += "+ERR"
			}
			parts = append(parts, p)
		}
		m["reads"] = strings.Join(parts, ",")
	}
	if s.Fill > 0 {
		m["fill"] = s.Fill
	}
	if s.Bias != "" {
		m["bias"] = s.Bias
	}
	if s.Opts != 0 {
		m["opts"] = s.Opts
	}
	var gates []string
	for _, g := range []struct {
		on bool
		n  string
	}{{s.GateRead, "read"}, {s.GateClose, "close"}, {s.GateName, "name"}, {s.GateLog, "log"}, {s.GateOut, "out"}} {
		if g.on {
			gates = append(gates, g.n)
		}
	}
	if len(gates) > 0 {
		m["gates"] = strings.Join(gates, ",")
	}
	if len(s.Choices) > 0 {
		c := s.Choices
		if len(c) > 24 {
			c = c[:24]
		}
		m["choices"] = fmt.Sprint(c)
	}
	if len(s.Ints) > 0 {
		keys := make([]string, 0, len(s.Ints))
		for k := range s.Ints {
			keys = append(keys, k)
		}
		sort.Strings(keys)
		for _, k := range keys {
			m[k] = s.Ints[k]
		}
	}
	for k, v := range s.Strs {
		if len(v) > 80 {
			v = v[:80] + "..."
		}
		m[k] = v
	}
	return m
}
