package sim

import (
	"bytes"
	"fmt"
	"os"
	"os/exec"
	"path/filepath"
	"strings"
	"syscall"
	"testing"
	"time"

	"github.com/wkhere/bcl"

	"verifharness/gen"
	"verifharness/prng"
)

// C18: the command-line tool mirrors the library. cmd/bcl has no seam inside
// the process, so it runs as the real binary in a real process; what the
// simulator owns is its environment: argv, files, stdin, and faults injected
// at the syscall boundary by strace.
type c18 struct{}

func init() { register(c18{}) }

func (c18) ID() string { return "C18" }
func (c18) Rule() string {
	return "one run = one (program class, flag set, file mode) scenario: the real cmd/bcl binary is started with 3 seeded spellings of the same flag set (order, position relative to the file argument, clustering, long/short, '--'), with the file by name, as '-', or on stdin; stdout, stderr and exit status must equal what the library produces in-process for the same bytes and options (OptOutput/OptLogger capture + the final error line) and be identical across spellings; " +
		"'--bdump' runs are followed by a '--bload' run of the written file; usage errors must exit 2; " +
		"fault enumeration: with strace -e inject the open / n-th read of the source, the create / k-th write / close of the dump file and the open / n-th read of the .bcb fail with EACCES/EIO/ENOSPC at every enumerated point; conditioned on strace reporting the injection, the exit status must be 1 with a message on stderr and no incompletely written .bcb may later load successfully; " +
		"one evaluation = one process started; non-trivial iff at least two spellings were compared or a fault was injected; distinct = distinct (source hash, argv) pairs"
}

func (c18) Gen(seed uint64, idx int, tier string) *Scenario {
	r := prng.New(seed, "C18", idx)
	sc := &Scenario{Prop: "C18", Seed: seed, Idx: idx}
	class := prng.Pick(r, []string{"ok", "ok", "ok", "parse-error", "runtime-error", "warning", "lex-error"})
	cfg := gen.DefaultCfg(r)
	cfg.Safe = true
	cfg.PrintHeavy = r.Chance(1, 2)
	cfg.Stmts = r.Range(1, 15)
	if r.Chance(1, 6) {
		cfg.Pad = r.Range(4000, 9000) // sources of 2-3 read pages
	}
	longConsts := r.Chance(1, 4)
	mode := r.Weighted(10, 4, 3, 3)
	if mode == 3 && r.Chance(1, 2) {
		longConsts = true // the fault runs need dumps that are written in several pieces
	}
	if longConsts {
		cfg.LongTail = true // constants larger than any write buffer
		cfg.LongSizes = []int{97, 300, 4096, 4097, 5000, 9000}
		if class == "ok" {
			cfg.Stmts = r.Range(6, 20)
		}
	}
	p := gen.Generate(r, cfg)
	switch class {
	case "parse-error":
		sc.Src = gen.WithSyntaxErr(r, p, r.Chance(1, 2))
	case "lex-error":
		sc.Src, _ = gen.WithLexFail(r, p, r.Chance(1, 2))
	case "runtime-error":
		gen.AddPlant(r, p, prng.Pick(r, gen.RuntimePlants), cfg)
		sc.Src = p.Src
	case "warning":
		gen.AddPlant(r, p, "warn.rebind", cfg)
		sc.Src = p.Src
	default:
		sc.Src = p.Src
	}
	sc.Class = class
	flags := ""
	for _, f := range "dtrs" {
		if r.Chance(2, 5) {
			flags += string(f)
		}
	}
	sc.SetStr("flags", flags)
	sc.SetStr("filemode", prng.Pick(r, []string{"name", "name", "name", "dash", "stdin", "devnull"}))
	switch mode {
	case 1:
		sc.SetStr("mode", "bdump")
		sc.SetStr("filemode", "name")
	case 2:
		sc.SetStr("mode", "usage")
	case 3:
		sc.SetStr("mode", "fault")
		sc.SetStr("filemode", "name")
		sc.SetStr("fault", prng.Pick(r, []string{"src-open", "src-read", "src-read", "dump-create", "dump-write", "dump-write", "dump-close", "dump-kill", "load-open", "load-read"}))
		sc.SetInt("when", r.Range(1, 4))
	default:
		sc.SetStr("mode", "plain")
	}
	if class == "ok" && (r.Chance(1, 25) || sc.Str("mode") == "bdump" && r.Chance(1, 6)) {
		// next to nothing: an empty file, blanks, a comment, line feeds only
		sc.Src = []byte(prng.Pick(r, []string{"", " ", "\n", "\n\n", "# c", "# c\n", ";"}))
	}
	sc.SetInt("aseed", r.Intn(1<<30))
	// what standard input is, when it is used: a pipe, a regular file, a regular file whose
	// offset the parent has already advanced past a header, a socket
	sc.SetInt("stdinkind", r.Intn(5))
	return sc
}

// memFile is the FileInput used to compute the library's own result.
type memFile struct {
	*bytes.Reader
	name string
}

func (m memFile) Close() error { return nil }
func (m memFile) Name() string { return m.name }

type triple struct {
	stdout, stderr string
	status         int
}

func (t triple) String() string {
	return fmt.Sprintf("status=%d stdout=%q stderr=%q", t.status, short(t.stdout, 300), short(t.stderr, 300))
}

// libraryRun computes what the library prints for the bytes and flag set.
func libraryRun(src []byte, name, flags string, load []byte) (tr triple, dump []byte) {
	d, tflag, rflag, s := strings.Contains(flags, "d"), strings.Contains(flags, "t"), strings.Contains(flags, "r"), strings.Contains(flags, "s")
	var out, log bytes.Buffer
	var prog *bcl.Prog
	var err error
	if load != nil {
		prog, err = bcl.LoadProg(bytes.NewReader(load), name, bcl.OptDisasm(d), bcl.OptOutput(&out), bcl.OptLogger(&log))
	} else {
		prog, err = bcl.ParseFile(memFile{bytes.NewReader(src), name}, bcl.OptDisasm(d), bcl.OptStats(s), bcl.OptOutput(&out), bcl.OptLogger(&log))
	}
	fail := func(err error) triple {
		return triple{out.String(), log.String() + err.Error() + "\n", 1}
	}
	if err != nil {
		return fail(err), nil
	}
	var db bytes.Buffer
	if prog.Dump(&db) == nil {
		dump = db.Bytes()
	}
	res, binding, err := bcl.Execute(prog, bcl.OptTrace(tflag), bcl.OptStats(s), bcl.OptOutput(&out), bcl.OptLogger(&log))
	if err != nil {
		return fail(err), dump
	}
	if rflag {
		fmt.Fprintf(&out, "result:  %+v\n", res)
		fmt.Fprintf(&out, "binding: %+v\n", binding)
	}
	return triple{out.String(), log.String(), 0}, dump
}

var longFlag = map[byte]string{'d': "--disasm", 't': "--trace", 'r': "--result", 's': "--stats"}

// spellArgs renders one spelling of a flag set around a file argument.
func spellArgs(r *prng.R, flags string, file string, extra []string) []string {
	fl := []byte(flags)
	for i := len(fl) - 1; i > 0; i-- {
		j := r.Intn(i + 1)
		fl[i], fl[j] = fl[j], fl[i]
	}
	var items []string
	for i := 0; i < len(fl); {
		switch {
		case len(fl)-i >= 2 && r.Chance(1, 2):
			n := r.Range(2, len(fl)-i)
			items = append(items, "-"+string(fl[i:i+n]))
			i += n
		case r.Chance(1, 2):
			items = append(items, longFlag[fl[i]])
			i++
		default:
			items = append(items, "-"+string(fl[i]))
			i++
		}
	}
	items = append(items, extra...)
	if len(items) > 0 && r.Chance(1, 6) {
		// a flag given twice means what it means once
		d := items[r.Intn(len(items))]
		if !strings.HasPrefix(d, "--b") {
			items = append(items, d)
		}
	}
	for i := len(items) - 1; i > 0; i-- {
		j := r.Intn(i + 1)
		items[i], items[j] = items[j], items[i]
	}
	if file == "" {
		return items
	}
	// place the file somewhere; '--' may precede it when it is last
	at := r.Intn(len(items) + 1)
	var args []string
	args = append(args, items[:at]...)
	lead := at == len(items) && r.Chance(1, 3)
	if lead {
		args = append(args, "--")
	}
	args = append(args, file)
	if at == len(items) && !lead && r.Chance(1, 8) {
		// a terminator with nothing after it changes nothing - unless it is the second one:
		// after the first "--" a further "--" is a file name
		args = append(args, "--")
	}
	args = append(args, items[at:]...)
	return args
}

// c18StdinKind: see Gen ("stdinkind").
var c18StdinKind int

type procResult struct {
	triple
	timedOut bool
	injected bool
}

func runBin(dir string, args []string, stdin []byte, strace []string) procResult {
	bin := os.Getenv("VERIF_BCL_BIN")
	var cmd *exec.Cmd
	slog := filepath.Join(dir, "strace.log")
	if strace != nil {
		os.Remove(slog)
		a := append([]string{"-f", "-o", slog}, strace...)
		a = append(a, bin)
		a = append(a, args...)
		cmd = exec.Command("strace", a...)
	} else {
		cmd = exec.Command(bin, args...)
	}
	cmd.Dir = dir
	cmd.Env = append(os.Environ(), "GOMAXPROCS=1")
	var so, se bytes.Buffer
	cmd.Stdout, cmd.Stderr = &so, &se
	if stdin != nil {
		cmd.Stdin = bytes.NewReader(stdin) // a pipe fed by os/exec
		switch c18StdinKind {
		case 1, 2: // bcl < file; { read header; bcl; } < file
			junk := ""
			if c18StdinKind == 2 {
				junk = "print \"header line consumed by the parent\"\n"
			}
			fn := filepath.Join(dir, "stdin.dat")
			if os.WriteFile(fn, append([]byte(junk), stdin...), 0o644) == nil {
				if f, err := os.Open(fn); err == nil {
					f.Seek(int64(len(junk)), 0)
					cmd.Stdin = f
					defer f.Close()
					defer os.Remove(fn)
				}
			}
		case 4: // a pipe whose writer is slower than bcl: the program arrives in several pieces, every read comes short
			if rd, wr, err := os.Pipe(); err == nil {
				cmd.Stdin = rd
				defer rd.Close()
				go func() {
					defer wr.Close()
					n := len(stdin)
					cuts := []int{n / 3, n / 3 * 2, n}
					if n > 9000 {
						cuts = []int{4096 + n%1000, 8192 + n%500, n}
					}
					off := 0
					for _, c := range cuts {
						if c > off {
							if _, err := wr.Write(stdin[off:c]); err != nil {
								return
							}
							off = c
							time.Sleep(4 * time.Millisecond) // real time, but nothing is judged by it: only the pieces matter
						}
					}
				}()
			}
		case 3: // a connected socket
			if fds, err := syscall.Socketpair(syscall.AF_UNIX, syscall.SOCK_STREAM|syscall.SOCK_CLOEXEC, 0); err == nil {
				rd, wr := os.NewFile(uintptr(fds[0]), "stdin-socket"), os.NewFile(uintptr(fds[1]), "stdin-socket-peer")
				cmd.Stdin = rd
				defer rd.Close()
				go func() { wr.Write(stdin); wr.Close() }()
			}
		}
	} // else: os/exec connects the child's standard input to /dev/null
	pr := procResult{}
	if err := cmd.Start(); err != nil {
		pr.status = -2
		pr.stderr = err.Error()
		return pr
	}
	done := make(chan error, 1)
	go func() { done <- cmd.Wait() }()
	select {
	case err := <-done:
		if err != nil {
			if ee, ok := err.(*exec.ExitError); ok {
				pr.status = ee.ExitCode()
			} else {
				pr.status = -2
			}
		}
	case <-time.After(20 * time.Second):
		cmd.Process.Kill()
		<-done
		pr.timedOut = true
	}
	pr.stdout, pr.stderr = so.String(), se.String()
	Beat()
	if strace != nil {
		if b, err := os.ReadFile(slog); err == nil {
			pr.injected = bytes.Contains(b, []byte("(INJECTED)")) || bytes.Contains(b, []byte("killed by SIGKILL"))
		}
	}
	return pr
}

var workDirC18 string

func c18Dir() string {
	if workDirC18 == "" {
		base := os.Getenv("VERIF_TMP")
		if base == "" {
			base = os.TempDir()
		}
		workDirC18, _ = os.MkdirTemp(base, "c18-")
	}
	return workDirC18
}

func (c18) Run(t *testing.T, sc *Scenario) *Outcome {
	o := &Outcome{}
	dir := c18Dir()
	c18StdinKind = sc.Int("stdinkind", 0)
	r := prng.New(uint64(sc.Int("aseed", 1)), "argv")
	flags := sc.Str("flags")
	srcName := prng.Pick(r, []string{"prog.bcl", "conf.bcl", "noext", "x.y.bcl", "lib.bcl", "basic.bcl", "abc.bcl", "a.b.bcl", "x..bcl", "bcl.bcl",
		strings.Repeat("n", prng.Pick(r, []int{91, 92, 96, 120, 200})) + ".bcl", "./././././././././././././././././././././././././././././././././././././././././././././././prog.bcl"})
	if strings.Contains(srcName, "/") {
		os.WriteFile(filepath.Join(dir, "prog.bcl"), sc.Src, 0o644)
		defer os.Remove(filepath.Join(dir, "prog.bcl"))
	}
	os.WriteFile(filepath.Join(dir, srcName), sc.Src, 0o644)
	defer os.Remove(filepath.Join(dir, srcName))
	o.Hash = hash64(string(sc.Src)) ^ hash64(flags+sc.Str("mode")+sc.Str("filemode")+sc.Str("fault"))
	bad := func(kind, sig, detail string, args []string) {
		c := sc.Clone()
		c.SetStr("argv", strings.Join(args, " "))
		o.viol("C18", kind, sig, detail+"; argv: "+strings.Join(args, " "), c)
	}
	cmpTriple := func(got procResult, want triple, args []string, what string) bool {
		o.Evals++
		if got.timedOut {
			bad("hang", what+": no exit within 20s", "the process did not exit", args)
			return false
		}
		if got.status != want.status {
			bad("status", what+": exit status differs from the library outcome", fmt.Sprintf("exit status %d, expected %d; stderr %q", got.status, want.status, short(got.stderr, 300)), args)
			return false
		}
		if got.stdout != want.stdout {
			bad("stdout", what+": standard output differs from what the library prints", fmt.Sprintf("got %q, library %q", short(got.stdout, 400), short(want.stdout, 400)), args)
			return false
		}
		if got.stderr != want.stderr {
			bad("stderr", what+": standard error differs from what the library prints", fmt.Sprintf("got %q, library %q", short(got.stderr, 400), short(want.stderr, 400)), args)
			return false
		}
		return true
	}
	switch sc.Str("mode") {
	case "usage":
		var args []string
		switch r.Intn(11) {
		case 9:
			args = []string{srcName, "--", "other.bcl"} // two files, one on each side of the terminator
		case 10:
			args = []string{"--bload=a.bcb", srcName, "--"}
		case 0:
			args = []string{"-x", srcName}
		case 1:
			args = []string{"--nope", srcName}
		case 2:
			args = []string{"-d1", srcName}
		case 3:
			args = []string{srcName, "-r", "other.bcl"}
		case 4:
			args = []string{"--bdump", "noext"}
		case 5:
			args = []string{"--bdump"}
		case 6:
			args = []string{"--bloadX", srcName}
		case 7:
			args = []string{"--bload=a.bcb", "b.bcb"}
		default:
			args = []string{"-dq", srcName}
		}
		got := runBin(dir, args, sc.Src, nil)
		o.Evals++
		o.Nontrivial = true
		if got.status != 2 {
			bad("status", "usage error does not exit with status 2", fmt.Sprintf("exit status %d, stderr %q", got.status, short(got.stderr, 200)), args)
		} else if got.stderr == "" || got.stdout != "" {
			bad("streams", "usage error: message not on standard error only", fmt.Sprintf("stdout %q stderr %q", short(got.stdout, 200), short(got.stderr, 200)), args)
		}
		o.probe("usage_errors", 1)
	case "bdump":
		bcb := "out.bcb"
		extra := []string{"--bdump=" + bcb}
		if strings.HasSuffix(srcName, ".bcl") && r.Chance(1, 2) {
			extra = []string{"--bdump"}
			bcb = strings.TrimSuffix(srcName, ".bcl") + ".bcb"
		}
		os.Remove(filepath.Join(dir, bcb))
		defer os.Remove(filepath.Join(dir, bcb))
		if len(extra) == 1 && strings.HasPrefix(extra[0], "--bdump=") && strings.HasSuffix(srcName, ".bcl") && r.Chance(1, 4) {
			extra = append(extra, "--bdump") // valued, then bare: the bare spelling only switches dumping on
		}
		want, dump := libraryRun(sc.Src, srcName, flags, nil)
		if r.Chance(1, 2) && dump != nil {
			// the dump file already exists from an earlier, larger program: it must be replaced, not overlaid
			old := append(append([]byte{}, dump...), bytes.Repeat([]byte{0x17, 0x00, 0x2A}, r.Range(1, 700))...)
			os.WriteFile(filepath.Join(dir, bcb), old, 0o644)
			o.probe("bdump_over_existing_file", 1)
		}
		args := spellArgs(r, flags, srcName, extra)
		got := runBin(dir, args, nil, nil)
		if !cmpTriple(got, want, args, "--bdump run") {
			return o
		}
		fb, ferr := os.ReadFile(filepath.Join(dir, bcb))
		if dump == nil {
			if ferr == nil {
				bad("dump", "a .bcb file exists although parsing failed", fmt.Sprintf("%d bytes", len(fb)), args)
			}
			o.Nontrivial = true
			return o
		}
		if ferr != nil || !bytes.Equal(fb, dump) {
			bad("dump", "--bdump file differs from Prog.Dump", fmt.Sprintf("read error %v; %s", ferr, firstDiff(fb, dump)), args)
			return o
		}
		// load it back: by --bload=F, by --bload F, or on stdin
		lflags := flags
		var largs []string
		var stdin []byte
		lname := bcb
		switch r.Intn(3) {
		case 0:
			largs = spellArgs(r, lflags, "", []string{"--bload=" + bcb})
		case 1:
			largs = spellArgs(r, lflags, bcb, []string{"--bload"})
		default:
			largs = spellArgs(r, lflags, "", []string{"--bload"})
			stdin = fb
			lname = "-"
		}
		lwant, _ := libraryRun(nil, lname, lflags, fb)
		lgot := runBin(dir, largs, stdin, nil)
		if cmpTriple(lgot, lwant, largs, "--bload run") {
			// same output and status as the direct run (parse statistics exist only where there
			// was a parse; the listing, header included, is the same from source and from the file)
			if !strings.Contains(flags, "s") && (lgot.stdout != got.stdout || lgot.status != got.status) {
				bad("bload", "--bload does not reproduce the direct run", fmt.Sprintf("direct: %s; loaded: %s", got.triple, lgot.triple), largs)
			}
		}
		o.Nontrivial = true
		o.probe("bdump_bload_pairs", 1)
	case "fault":
		o.Nontrivial = true
		fault := sc.Str("fault")
		when := sc.Int("when", 1)
		bcb := "out.bcb"
		bpath := filepath.Join(dir, bcb)
		_, dump := libraryRun(sc.Src, srcName, "", nil)
		var args, strace []string
		inj := func(path, call, errno string, n int) []string {
			// both spellings: open calls are matched by the path string the process uses (relative), the others by descriptor
			return []string{"-P", path, "-P", filepath.Base(path), "-e", "trace=" + call, "-e", fmt.Sprintf("inject=%s:error=%s:when=%d", call, errno, n)}
		}
		spath := filepath.Join(dir, srcName)
		switch fault {
		case "src-open":
			args = spellArgs(r, flags, srcName, nil)
			strace = inj(spath, "openat", "EACCES", 1)
		case "src-read":
			args = spellArgs(r, flags, srcName, nil)
			strace = inj(spath, "read", "EIO", 1+(when-1)%(len(sc.Src)/4096+2))
		case "dump-create", "dump-write", "dump-close", "dump-kill":
			os.WriteFile(bpath, nil, 0o644) // strace -P resolves existing paths only
			defer os.Remove(bpath)
			args = spellArgs(r, flags, srcName, []string{"--bdump=" + bcb})
			switch fault {
			case "dump-create":
				strace = inj(bpath, "openat", "EACCES", 1)
			case "dump-write":
				strace = inj(bpath, "write", prng.Pick(r, []string{"ENOSPC", "EIO"}), 1+(when-1)%(len(dump)/4096+1))
			case "dump-kill":
				// the process is killed at its k-th write to the dump file: a crash in the middle of the dump
				strace = []string{"-P", bpath, "-P", filepath.Base(bpath), "-e", "trace=write", "-e", fmt.Sprintf("inject=write:signal=SIGKILL:when=%d", 1+(when-1)%(len(dump)/4096+1))}
			default:
				strace = inj(bpath, "close", "EIO", 1)
			}
		default: // load-open, load-read
			if dump == nil {
				o.Skipped = true
				return o
			}
			os.WriteFile(bpath, dump, 0o644)
			defer os.Remove(bpath)
			args = spellArgs(r, flags, "", []string{"--bload=" + bcb})
			if fault == "load-open" {
				strace = inj(bpath, "openat", "EACCES", 1)
			} else {
				strace = inj(bpath, "read", "EIO", 1+(when-1)%(len(dump)/4096+2))
			}
		}
		got := runBin(dir, args, nil, strace)
		o.Evals++
		if got.timedOut {
			bad("hang", "no exit within 20s under an injected fault", fault, args)
			return o
		}
		if !got.injected {
			o.probe("fault_point_not_reached", 1)
			return o
		}
		o.fault("syscall_error:"+fault, 1)
		if fault == "dump-kill" {
			// no exit status to judge; what the crash left on disk must not load as a program
			if fb, err := os.ReadFile(bpath); err == nil && dump != nil && !bytes.Equal(fb, dump) {
				lg := runBin(dir, []string{"--bload=" + bcb}, nil, nil)
				o.Evals++
				if lg.status == 0 {
					bad("dump", "the file left behind by a process killed in the middle of --bdump loads and runs successfully", fmt.Sprintf("%d of %d bytes on disk", len(fb), len(dump)), args)
				}
				o.probe("crash_leftover_loaded", 1)
			}
			return o
		}
		if got.status != 1 {
			bad("status", "I/O error ("+fault+") does not exit with status 1", fmt.Sprintf("exit status %d; stdout %q stderr %q", got.status, short(got.stdout, 200), short(got.stderr, 200)), args)
		} else if got.stderr == "" {
			bad("streams", "I/O error ("+fault+") leaves standard error empty", "", args)
		}
		if strings.HasPrefix(fault, "dump-") && dump != nil {
			// whatever is on disk now must not load as a (shortened) program
			if fb, err := os.ReadFile(bpath); err == nil && !bytes.Equal(fb, dump) {
				lg := runBin(dir, []string{"--bload=" + bcb}, nil, nil)
				o.Evals++
				if lg.status == 0 {
					bad("dump", "an incompletely written .bcb loads and runs successfully", fmt.Sprintf("%d of %d bytes on disk", len(fb), len(dump)), args)
				}
			}
		}
	default:
		file := srcName
		var stdin []byte
		name := srcName
		switch sc.Str("filemode") {
		case "dash":
			file, stdin, name = "-", sc.Src, "/dev/stdin"
		case "stdin":
			file, stdin, name = "", sc.Src, "/dev/stdin"
		case "devnull":
			// no FILE and nothing on standard input (what cron, nohup and exec.Cmd give a child): the empty program
			file, stdin, name = "", nil, "/dev/stdin"
			sc = sc.Clone()
			sc.Src = nil
		}
		want, _ := libraryRun(sc.Src, name, flags, nil)
		var first *procResult
		for k := 0; k < 3; k++ {
			args := spellArgs(r, flags, file, nil)
			got := runBin(dir, args, stdin, nil)
			if !cmpTriple(got, want, args, "plain run") {
				return o
			}
			if first == nil {
				first = &got
			} else if got.triple != first.triple {
				bad("spelling", "two spellings of one flag set give different results", fmt.Sprintf("%s vs %s", got.triple, first.triple), args)
				return o
			}
		}
		o.Nontrivial = true
		o.probe("spellings_compared", 3)
	}
	return o
}
