package sim

import (
	"bytes"
	"fmt"
	"regexp"
	"strconv"
	"strings"
	"testing"

	"github.com/wkhere/bcl"

	"verifharness/bcfmt"
	"verifharness/gen"
	"verifharness/prng"
	"verifharness/simio"
)

// C08: diagnostics point at the true source location. The oracle is computed
// from the source bytes (and the generator's record of token ends) only.
type c08 struct{}

func init() { register(c08{}) }

func (c08) ID() string { return "C08" }
func (c08) Rule() string {
	return "one run = one generated source (any layout, optional planted diagnostic with a generator-known offset) parsed by Parse and by ParseFile under a seeded read partition, executed, dumped, re-loaded through a seeded reader and executed again; " +
		"every 'line L:C' of every diagnostic, runtime error and warning is mapped back to a byte offset with the harness's own newline index and checked against the source bytes, the quoted token text, the recorded token ends and the plant's offset; " +
		"the positions and line-table sections of the dump are decoded by the independent decoder and compared with the token ends and newline offsets; " +
		"non-trivial iff at least one position-carrying message or a stored positions section was checked; distinct = distinct (source hash, partition) pairs"
}

func (c08) Gen(seed uint64, idx int, tier string) *Scenario {
	r := prng.New(seed, "C08", idx)
	sc := &Scenario{Prop: "C08", Seed: seed, Idx: idx, API: "ParseFile"}
	cfg := gen.DefaultCfg(r)
	cfg.Exotic = prng.Pick(r, []int{0, 5, 20, 40, 70})
	switch r.Weighted(10, 3, 2, 2, 1, 1) {
	case 1:
		cfg.Pad = r.Range(100, 400) // offsets in the 2-byte varint class
	case 2:
		cfg.Pad = r.Range(2100, 2500) // around 2287/2288
	case 3:
		cfg.Pad = r.Range(3900, 4300) // around one read page
	case 4:
		cfg.Pad = r.Range(8000, 13000)
	case 5:
		if tier == "thorough" || r.Chance(1, 4) {
			cfg.Pad = r.Range(67500, 68200) // around 67823/67824
		}
	}
	kind := ""
	switch r.Weighted(8, 2, 7, 3) {
	case 0:
		kind = prng.Pick(r, gen.RuntimePlants)
		cfg.Safe = true
	case 1:
		kind = prng.Pick(r, gen.WarnPlants)
		cfg.Safe = true
	case 2:
		kind = prng.Pick(r, gen.CompilePlants)
	}
	if strings.HasPrefix(kind, "rt.bind") || strings.HasPrefix(kind, "warn.") {
		// keep the generated program's own bind statements out of the way
		cfg.NoBind = strings.HasPrefix(kind, "rt.bind")
	}
	p := gen.Generate(r, cfg)
	if r.Chance(1, 8) {
		// more than 240 constants / locals before the interesting statement: multi-byte operands
		gen.AddWide(r, p, r.Range(236, 300), r.Chance(1, 2))
		if kind == "" {
			p.Layout(r, cfg)
		}
	}
	sc.Class = "noplant"
	if kind != "" {
		gen.AddPlant(r, p, kind, cfg)
		sc.Class = kind
	}
	if idx%16 == 5 {
		// a character that cannot start a token as the very first thing of the input (a
		// byte-order mark, say): the lexer stops there, nothing else is diagnosed
		p.Plants = nil
		gen.AddLeadingLexFail(r, p, cfg)
		kind = "ct.lex" // a planted source: not to be damaged below
		sc.Class = "ct.lex-first"
	}
	if r.Chance(1, 120) || (tier == "thorough" && r.Chance(1, 30)) {
		// more than 65536 lines in front: line numbers and line-table sizes beyond 16 bits
		p.Seps[0] = strings.Repeat("\n", r.Range(65530, 66200)) + p.Seps[0]
		p.Render()
		sc.SetInt("manylines", 1)
	}
	sc.Src = p.Src
	for _, t := range p.Toks {
		sc.TokEnds = append(sc.TokEnds, t.End)
	}
	for _, pl := range p.Plants {
		pi := PlantInfo{Kind: pl.Kind, Match: pl.Match, Runtime: pl.Runtime, Warning: pl.Warning}
		pi.Lo, pi.Hi = p.Toks[pl.StmtFirst].Start, p.Toks[pl.StmtLast].End
		if pl.Tok >= 0 {
			pi.Off = p.Toks[pl.Tok].End
			pi.TokLo = p.Toks[pl.Tok].Start
		} else {
			pi.Off = len(p.Src)
		}
		pi.Lex = pl.Kind == "ct.lex" || pl.Kind == "ct.unterminated"
		pi.Exact = gen.ExactCompilePlants[pl.Kind]
		sc.Plants = append(sc.Plants, pi)
	}
	// occasionally damage an unplanted source: only the byte-level oracle applies then
	if kind == "" && r.Chance(1, 2) {
		sc.Src, _ = gen.Damage(r, p)
		sc.TokEnds = nil
		sc.Class = "damaged"
	}
	sc.Name = "f.bcl"
	pk := prng.Pick(r, PartitionKinds)
	if len(sc.Src) > 3000 && (pk == "bytewise" || pk == "fixed") {
		pk = "geometric"
	}
	if r.Chance(1, 4) && len(sc.Src) > 1 {
		ic := interestingCuts(sc.Src)
		if len(ic) > 0 {
			set := map[int]bool{}
			for i := r.Range(1, 5); i > 0; i-- {
				set[prng.Pick(r, ic)] = true
			}
			var cuts []int
			for c := range set {
				cuts = append(cuts, c)
			}
			sortInts(cuts)
			sc.Reads = CutsToReads(cuts)
			pk = "interesting"
		}
	}
	if pk != "interesting" {
		sc.Reads = MakeReads(r, len(sc.Src), pk, p)
		if pk == "zeros" {
			sc.Reads = WithZeros(r, sc.Reads, 2)
		}
		if pk == "eofdata" {
			sc.Reads = MarkEOF(sc.Reads, len(sc.Src))
		}
	}
	sc.SetStr("partition", pk)
	if r.Chance(1, 5) {
		sc.GateRead, sc.GateLog = true, true
		sc.Bias = prng.Pick(r, Biases)
	}
	sc.SetInt("loadpart", r.Intn(1<<30))
	return sc
}

func sortInts(a []int) {
	for i := 1; i < len(a); i++ {
		for j := i; j > 0 && a[j] < a[j-1]; j-- {
			a[j], a[j-1] = a[j-1], a[j]
		}
	}
}

// srcIndex is the harness's own view of a source: newline offsets and
// token ends.
type srcIndex struct {
	src     []byte
	nl      []int
	tokEnds map[int]bool
}

func newSrcIndex(src []byte, tokEnds []int) *srcIndex {
	x := &srcIndex{src: src}
	for i, c := range src {
		if c == '\n' {
			x.nl = append(x.nl, i)
		}
	}
	if tokEnds != nil {
		x.tokEnds = map[int]bool{}
		for _, e := range tokEnds {
			x.tokEnds[e] = true
		}
	}
	return x
}

// offsetOf maps line:col back to a byte offset, or reports why the pair
// cannot designate any offset of this source.
func (x *srcIndex) offsetOf(line, col int) (int, string) {
	if line < 1 || col < 1 {
		return 0, fmt.Sprintf("line %d:%d is not a position (both start at 1)", line, col)
	}
	if line-1 > len(x.nl) {
		return 0, fmt.Sprintf("line %d but the source has only %d newline characters", line, len(x.nl))
	}
	off := col - 1
	if line > 1 {
		off = x.nl[line-2] + col
	}
	limit := len(x.src)
	if line-1 < len(x.nl) {
		limit = x.nl[line-1] // may designate the newline byte itself, nothing beyond
	}
	if off > limit {
		return off, fmt.Sprintf("column %d runs past the end of line %d (offset %d > %d)", col, line, off, limit)
	}
	return off, ""
}

var reCompile = regexp.MustCompile(`^line (\d+):(\d+): error(.*)$`)
var reRuntime = regexp.MustCompile(`^runtime error: line (\d+):(\d+): (.*)$`)
var reWarning = regexp.MustCompile(`^WARNING: line (\d+):(\d+): (.*)$`)

type diag struct {
	kind      string // compile, runtime, warning
	line, col int
	off       int
	rest      string
	text      string
	lexical   bool
}

// checkMessage validates one position-carrying message against the source.
func (x *srcIndex) checkMessage(kind, text string, m []string) (d diag, problem string) {
	d = diag{kind: kind, text: text}
	d.line, _ = strconv.Atoi(m[1])
	d.col, _ = strconv.Atoi(m[2])
	d.rest = m[3]
	off, prob := x.offsetOf(d.line, d.col)
	d.off = off
	if prob != "" {
		return d, prob
	}
	if kind != "compile" {
		if x.tokEnds != nil && !x.tokEnds[off] {
			return d, fmt.Sprintf("offset %d is not the end of any token of the source", off)
		}
		return d, ""
	}
	switch {
	case strings.HasPrefix(d.rest, " at end: "):
		if off != len(x.src) {
			return d, fmt.Sprintf("'at end' but offset %d is not the end of input (%d)", off, len(x.src))
		}
	case strings.HasPrefix(d.rest, " at '"):
		body := d.rest[len(" at '"):]
		ok := false
		for i := 0; i+3 <= len(body); i++ {
			if body[i:i+3] == "': " {
				tok := body[:i]
				if len(tok) <= off && string(x.src[off-len(tok):off]) == tok {
					ok = true
					break
				}
			}
		}
		if !ok {
			lo := max(0, off-12)
			return d, fmt.Sprintf("the quoted token is not the source text ending at offset %d (source there: %q)", off, x.src[lo:off])
		}
		if x.tokEnds != nil && !x.tokEnds[off] {
			return d, fmt.Sprintf("offset %d is not the end of any token of the source", off)
		}
	case strings.HasPrefix(d.rest, ": "):
		d.lexical = true // lexical failure: position is the lexer's cursor
	default:
		return d, "unrecognised diagnostic form"
	}
	return d, ""
}

// checkLog validates every diagnostic / warning line of a log text.
func (x *srcIndex) checkLog(log string) (ds []diag, problems []string) {
	for _, l := range strings.Split(log, "\n") {
		if l == "" {
			continue
		}
		if m := reCompile.FindStringSubmatch(l); m != nil {
			d, p := x.checkMessage("compile", l, m)
			ds = append(ds, d)
			if p != "" {
				problems = append(problems, fmt.Sprintf("%q: %s", l, p))
			}
		} else if m := reWarning.FindStringSubmatch(l); m != nil {
			d, p := x.checkMessage("warning", l, m)
			ds = append(ds, d)
			if p != "" {
				problems = append(problems, fmt.Sprintf("%q: %s", l, p))
			}
		}
	}
	return
}

// checkPlants compares the messages that match a plant with the plant's
// known offset.
func checkPlants(plants []PlantInfo, x *srcIndex, ds []diag, rtErr string, o *Outcome, stage string) (problems []string) {
	for _, pl := range plants {
		switch {
		case pl.Runtime:
			if !strings.Contains(rtErr, pl.Match) {
				o.probe("plant_missed", 1)
				continue
			}
			m := reRuntime.FindStringSubmatch(rtErr)
			if m == nil {
				problems = append(problems, fmt.Sprintf("runtime error %q carries no line:column", rtErr))
				continue
			}
			d, p := x.checkMessage("runtime", rtErr, m)
			if p != "" {
				continue // already reported by the generic check
			}
			o.probe("plant_hit."+pl.Kind, 1)
			if d.off != pl.Off {
				problems = append(problems, fmt.Sprintf("%s: %q designates offset %d, but the last token of the failing operation ends at %d", pl.Kind, rtErr, d.off, pl.Off))
			}
		case pl.Warning:
			hit, okAt := false, false
			for _, d := range ds {
				if d.kind == "warning" && strings.Contains(d.text, pl.Match) {
					hit = true
					if d.off == pl.Off {
						okAt = true
					}
				}
			}
			if !hit {
				o.probe("plant_missed", 1)
				continue
			}
			o.probe("plant_hit."+pl.Kind, 1)
			if !okAt {
				problems = append(problems, fmt.Sprintf("%s: no warning designates offset %d (end of the bind statement's last token)", pl.Kind, pl.Off))
			}
		default:
			hit, okAt := false, false
			var seen []int
			for _, d := range ds {
				if d.kind != "compile" || !strings.Contains(d.text, pl.Match) {
					continue
				}
				hit = true
				seen = append(seen, d.off)
				switch {
				case pl.Lex:
					if d.off > pl.TokLo && d.off <= pl.Off+1 {
						okAt = true
					}
				case pl.Kind == "ct.missingoperand":
					okAt = okAt || d.off == len(x.src)
				case pl.Exact:
					okAt = okAt || d.off == pl.Off
				default:
					// a token end inside the planted statement, or the first token end after it
					if d.off >= pl.Lo && d.off <= pl.Hi {
						okAt = true
					} else if d.off > pl.Hi {
						first := len(x.src)
						for e := range x.tokEnds {
							if e > pl.Hi && e < first {
								first = e
							}
						}
						okAt = okAt || d.off == first
					}
				}
			}
			if !hit {
				o.probe("plant_missed", 1)
				continue
			}
			o.probe("plant_hit."+pl.Kind, 1)
			if !okAt && pl.Exact {
				problems = append(problems, fmt.Sprintf("%s: diagnostics at %v, but the offending token ends at %d - lie outside the planted statement's offending token (%s)", pl.Kind, seen, pl.Off, stage))
			} else if !okAt {
				problems = append(problems, fmt.Sprintf("%s: diagnostics %v lie outside the planted statement [%d,%d] (%s)", pl.Kind, seen, pl.Lo, pl.Hi, stage))
			}
		}
	}
	return
}

func (c08) Run(t *testing.T, sc *Scenario) *Outcome {
	o := &Outcome{}
	x := newSrcIndex(sc.Src, sc.TokEnds)
	checked := 0
	report := func(stage string, problems []string, s *Scenario) {
		for _, p := range problems {
			o.viol("C08", "position", stage+": "+classifyProblem(p), stage+": "+p, s)
			break
		}
	}
	checkRuntime := func(stage, e string, s *Scenario) {
		if m := reRuntime.FindStringSubmatch(e); m != nil {
			checked++
			if _, p := x.checkMessage("runtime", e, m); p != "" {
				report(stage, []string{fmt.Sprintf("%q: %s", e, p)}, s)
			}
		}
	}

	// (a) in-memory
	mem := ParseMem(sc.Src, sc.Name, 0)
	if mem.Panic != "" {
		o.Skipped = true
		return o
	}
	ds, probs := x.checkLog(mem.Log)
	checked += len(ds)
	report("Parse", probs, sc)
	var memExec *ExecResult
	var dump []byte
	if mem.Err == nil {
		if sc.Idx%3 == 0 {
			// the Prog is kept while another source with other line offsets is parsed and run
			other := append([]byte("# another\n\n\nvar zz9 = 1\n"), sc.Src...)
			if om := ParseMem(other, "other.bcl", 0); om.Panic == "" && om.Err == nil {
				Exec(om.Prog, om.OutBuf, om.LogBuf, 0)
			}
			o.probe("other_parse_before_execute", 1)
		}
		memExec = Exec(mem.Prog, mem.OutBuf, mem.LogBuf, 0)
		if memExec.Panic != "" {
			o.Skipped = true
			return o
		}
		wds, wprobs := x.checkLog(memExec.Log)
		checked += len(wds)
		report("Execute", wprobs, sc)
		checkRuntime("Execute", memExec.Err, sc)
		report("Execute", checkPlants(sc.Plants, x, wds, memExec.Err, o, "Execute"), sc)
		// stored sections
		d, derr, dpanic := DumpProg(mem.Prog)
		if derr == "" && dpanic == "" {
			dump = d
			if f, err := bcfmt.Decode(d); err == nil {
				checked++
				if p := checkSections(x, f); p != "" {
					report("Dump", []string{p}, sc)
				}
			} else {
				o.probe("dump_undecodable", 1)
			}
		}
	} else {
		report("Parse", checkPlants(sc.Plants, x, ds, "", o, "Parse"), sc)
	}

	// (b) streamed
	res := RunPipe(t, sc, false, false)
	o.Steps = res.Steps
	o.fault("short_read", res.FS.ShortReads)
	o.fault("zero_read", res.FS.ZeroReads)
	o.fault("eof_with_data", res.FS.EOFWithData)
	checkPipeBasics(t, "C08", sc, res, o)
	withChoices := sc.Clone()
	withChoices.Choices = append([]int{}, res.Choices...)
	withChoices.Replay = true
	if res.Returned && res.CallerPanic == "" {
		ds2, probs2 := x.checkLog(res.Log)
		checked += len(ds2)
		report("ParseFile", probs2, withChoices)
		if res.Err != nil {
			report("ParseFile", checkPlants(sc.Plants, x, ds2, "", o, "ParseFile"), withChoices)
		} else if res.Prog != nil {
			ex := ExecW(res.Prog, res.OutW, res.LogW, 0)
			if ex.Panic == "" {
				wds, wprobs := x.checkLog(ex.Log)
				checked += len(wds)
				report("ParseFile+Execute", wprobs, withChoices)
				checkRuntime("ParseFile+Execute", ex.Err, withChoices)
				report("ParseFile+Execute", checkPlants(sc.Plants, x, wds, ex.Err, o, "ParseFile+Execute"), withChoices)
			}
			if d, derr, dpanic := DumpProg(res.Prog); derr == "" && dpanic == "" {
				if f, err := bcfmt.Decode(d); err == nil {
					checked++
					if p := checkSections(x, f); p != "" {
						report("ParseFile+Dump", []string{p}, withChoices)
					}
				}
			}
		}
	}

	// (c) survives dump and load
	if dump != nil && memExec != nil {
		lr := prng.New(uint64(sc.Int("loadpart", 1)), "load")
		kind := prng.Pick(lr, []string{"whole", "bytewise", "geometric", "fixed", "eofdata"})
		if len(dump) > 6000 && kind == "bytewise" {
			kind = "geometric"
		}
		rd := &simio.SimReader{Data: dump, Script: MakeReads(lr, len(dump), kind, nil)}
		if kind == "eofdata" {
			rd.Script = MarkEOF(rd.Script, len(dump))
		}
		var out2, log2 bytes.Buffer
		var p2 *bcl.Prog
		var lerr error
		lpanic := ""
		reuse := lr.Chance(1, 4)
		func() {
			defer func() {
				if r := recover(); r != nil {
					lpanic = fmt.Sprint(r)
				}
			}()
			if reuse {
				// Load is a method of Prog: load into a Prog that held another program before
				p2, lerr = bcl.Parse([]byte("# another\n# program\nvar a = 1\n\nprint a\n"), "earlier.bcl", bcl.OptOutput(&out2), bcl.OptLogger(&log2))
				if lerr == nil {
					lerr = p2.Load(rd)
				}
			} else {
				p2, lerr = bcl.LoadProg(rd, sc.Name, bcl.OptOutput(&out2), bcl.OptLogger(&log2))
			}
		}()
		if reuse {
			o.probe("loaded_into_used_prog", 1)
		}
		if lpanic == "" && lerr == nil && p2 != nil {
			ex2 := Exec(p2, &out2, &log2, 0)
			if ex2.Panic == "" {
				if ex2.Err != memExec.Err {
					o.viol("C08", "position", "after dump and load: runtime error text differs",
						fmt.Sprintf("before: %q after load: %q", memExec.Err, ex2.Err), sc)
				}
				if ex2.Log != memExec.Log {
					o.viol("C08", "position", "after dump and load: warnings differ",
						fmt.Sprintf("before: %q after load: %q", short(memExec.Log, 200), short(ex2.Log, 200)), sc)
				}
				wds, wprobs := x.checkLog(ex2.Log)
				checked += len(wds)
				report("Load+Execute", wprobs, sc)
				checkRuntime("Load+Execute", ex2.Err, sc)
				report("Load+Execute", checkPlants(sc.Plants, x, wds, ex2.Err, o, "Load+Execute"), sc)
				o.probe("checked_after_load", 1)
			}
		} else {
			o.probe("load_failed_not_judged_here", 1) // C09's business
		}
	}
	o.Nontrivial = checked > 0
	h := hash64(string(sc.Src))
	for _, r := range sc.Reads {
		h = h*1099511628211 ^ uint64(r.N)
	}
	o.Hash = h
	o.probe("messages_checked", checked)
	return o
}

// classifyProblem turns a problem text into a stable signature fragment.
func classifyProblem(p string) string {
	switch {
	case strings.Contains(p, "not the end of any token"):
		return "offset is not a token end"
	case strings.Contains(p, "quoted token is not the source text"):
		return "quoted token does not end at the offset"
	case strings.Contains(p, "runs past the end of line"):
		return "column past the end of the line"
	case strings.Contains(p, "newline characters"):
		return "line beyond the source"
	case strings.Contains(p, "'at end'"):
		return "at end is not the end of input"
	case strings.Contains(p, "last token of the failing operation"):
		return "runtime position is not the end of the failing operation"
	case strings.Contains(p, "lie outside the planted statement"):
		return "compile diagnostic outside the offending statement"
	case strings.Contains(p, "no warning designates"):
		return "warning position"
	case strings.Contains(p, "line table"):
		return "stored line table differs from the newline offsets"
	case strings.Contains(p, "positions section"):
		return "stored positions"
	}
	return normSig(short(p, 60))
}

// checkSections compares the stored positions and line table with the source.
func checkSections(x *srcIndex, f *bcfmt.File) string {
	if len(f.Lfs) != len(x.nl) {
		return fmt.Sprintf("line table has %d entries, the source has %d newline characters", len(f.Lfs), len(x.nl))
	}
	for i, v := range f.Lfs {
		if int(v) != x.nl[i] {
			return fmt.Sprintf("line table entry %d is %d, newline %d of the source is at offset %d", i, v, i, x.nl[i])
		}
	}
	if len(f.Positions) != len(f.Code) {
		return fmt.Sprintf("positions section has %d entries for %d code bytes", len(f.Positions), len(f.Code))
	}
	prev := uint64(0)
	for i, v := range f.Positions {
		if v < prev {
			return fmt.Sprintf("positions section decreases at code byte %d (%d after %d)", i, v, prev)
		}
		prev = v
		if int(v) > len(x.src) {
			return fmt.Sprintf("positions section entry %d = %d lies beyond the source (%d bytes)", i, v, len(x.src))
		}
		if x.tokEnds != nil && !x.tokEnds[int(v)] && int(v) != len(x.src) {
			return fmt.Sprintf("positions section entry %d = %d is not the end of any token", i, v)
		}
	}
	return ""
}
