package sim

import (
	"bytes"
	"encoding/json"
	"fmt"
	"math"
	"os"
	"path/filepath"
	"regexp"
	"sort"
	"strconv"
	"strings"
	"sync"
	"testing"

	"verifharness/bcfmt"
	"verifharness/prng"
)

// C14: the version 1.1 bytecode file format is stable.
type c14 struct{}

func init() { register(c14{}) }

func (c14) ID() string { return "C14" }
func (c14) Rule() string {
	return "stored-history replay plus independent decoding. (1) every file of the committed corpus /verif/corpus/v1.1 (written once by the pinned build's Dump or hand-assembled from the documented layout; covers every opcode incl. NOP and LOOP, every constant kind incl. negative ints, bools, nil, NaN/Inf/-0, every bind selector x target nibble, 1..4-byte varints in sizes/indices, jump distances up to 0xFFFF, minor versions 0 and 1) is loaded by the current build through a simulated reader under seeded partitions and executed; output, warnings, blocks, binding, error and the re-dump must equal the recorded ones. " +
		"(2) every fresh dump of a generated program is parsed by the independent decoder (own sqlite4 varint, frozen opcode/typecode/nibble tables): complete parse, identical re-encoding, instructions tile the code, and offsets, mnemonics, constant values, jump targets, bind bytes and line:column of the OptDisasm listing agree with what the decoder read. " +
		"One evaluation = one (corpus file, partition) replay or one fresh dump; non-trivial iff the file executed or was decoded; distinct = distinct (file hash, partition) pairs"
}

type CorpusEntry struct {
	File     string   `json:"file"`
	Origin   string   `json:"origin"` // pinned-dump | hand-assembled
	Desc     string   `json:"desc"`
	Out      string   `json:"out"`
	Log      string   `json:"log"`
	Blocks   string   `json:"blocks"`
	Binding  string   `json:"binding"`
	Err      string   `json:"err"`
	Redump   bool     `json:"redump"` // Dump(LoadProg(file)) must equal the file
	SrcNote  string   `json:"src_note,omitempty"`
	Features []string `json:"features,omitempty"`
}

var corpusOnce sync.Once
var corpus []CorpusEntry
var corpusDir string

func loadCorpus() {
	corpusOnce.Do(func() {
		base := os.Getenv("VERIF_DIR")
		if base == "" {
			base = "/verif"
		}
		corpusDir = filepath.Join(base, "corpus", "v1.1")
		b, err := os.ReadFile(filepath.Join(corpusDir, "index.json"))
		if err != nil {
			return
		}
		json.Unmarshal(b, &corpus)
	})
}

func (c14) Gen(seed uint64, idx int, tier string) *Scenario {
	loadCorpus()
	r := prng.New(seed, "C14", idx)
	sc := &Scenario{Prop: "C14", Seed: seed, Idx: idx}
	n := len(corpus)
	// the first passes over the corpus come first so that even a tiny run covers every file
	if n > 0 && (idx < 2*n || idx%2 == 0) {
		e := corpus[idx%n]
		sc.Class = "corpus"
		sc.SetStr("file", e.File)
		kinds := []string{"whole", "bytewise", "geometric", "fixed", "eofdata", "zeros", "page", "twocut"}
		sc.SetStr("partition", kinds[(idx/n)%len(kinds)])
		sc.SetInt("pseed", r.Intn(1<<30))
		return sc
	}
	sc.Class = "fresh"
	p := genAccepted(r, r.Chance(1, 4), tier)
	sc.Src = p.Src
	sc.Name = progName(r)
	return sc
}

func (c14) Run(t *testing.T, sc *Scenario) *Outcome {
	if sc.Class == "corpus" {
		return c14Corpus(sc)
	}
	return c14Fresh(sc)
}

func c14Corpus(sc *Scenario) *Outcome {
	loadCorpus()
	o := &Outcome{}
	var e *CorpusEntry
	for i := range corpus {
		if corpus[i].File == sc.Str("file") {
			e = &corpus[i]
		}
	}
	if e == nil {
		o.Skipped = true
		o.probe("corpus_entry_missing", 1)
		return o
	}
	data, err := os.ReadFile(filepath.Join(corpusDir, e.File))
	if err != nil {
		o.Skipped = true
		o.probe("corpus_file_missing", 1)
		return o
	}
	r := prng.New(uint64(sc.Int("pseed", 1)), "c14part")
	kind := sc.Str("partition")
	if kind == "bytewise" && len(data) > 30000 {
		kind = "geometric"
	}
	script := dumpScript(r, kind, data, nil)
	// a stored file reaches the loader through whatever the deployment opens it with: a plain
	// reader, a file (Stat), a pipe (Stat: size 0), a queue (Len) - see readerkinds.go
	rkind := int(uint64(sc.Int("pseed", 1)) % uint64(rkCount))
	lr := loadInto(data, script, "x", false, false, rkind)
	o.fault("reader_kind:"+readerKindName[rkind], 1)
	o.Hash = hash64(e.File) ^ hash64(kind) ^ uint64(rkind)<<32
	o.Nontrivial = true
	for _, f := range e.Features {
		o.probe("corpus."+f, 1)
	}
	what := fmt.Sprintf("corpus file %s (%s; %s)", e.File, e.Origin, e.Desc)
	if lr.Panic != "" {
		o.viol("C14", "corpus", "load panics:"+e.File, what+": LoadProg panicked: "+lr.Panic, sc)
		return o
	}
	if lr.Err != nil {
		o.viol("C14", "corpus", "load fails:"+e.File, what+" through a "+readerKindName[rkind]+": LoadProg failed: "+lr.Err.Error(), sc)
		return o
	}
	ex := Exec(lr.Prog, lr.Out, lr.Log, 0)
	if ex.Panic != "" {
		o.viol("C14", "corpus", "execution panics:"+e.File, what+": Execute panicked: "+ex.Panic, sc)
		return o
	}
	var diffs []string
	cmp := func(name, got, want string) {
		if got != want {
			diffs = append(diffs, fmt.Sprintf("%s: got %q, recorded %q", name, short(got, 300), short(want, 300)))
		}
	}
	cmp("output", ex.Out, e.Out)
	cmp("warnings", ex.Log, e.Log)
	cmp("blocks", ex.Blocks, e.Blocks)
	cmp("binding", ex.Binding, e.Binding)
	cmp("error", ex.Err, e.Err)
	if len(diffs) > 0 {
		o.viol("C14", "corpus", "recorded outcome differs:"+e.File, what+": "+strings.Join(diffs, "; "), sc)
	}
	if e.Redump {
		d2, derr, dpanic := DumpProg(lr.Prog)
		if derr != "" || dpanic != "" {
			o.viol("C14", "corpus", "re-dump fails:"+e.File, what+": "+derr+dpanic, sc)
		} else if !bytes.Equal(d2, data) {
			o.viol("C14", "corpus", "re-dump differs:"+e.File, what+": "+firstDiff(d2, data), sc)
		}
	}
	return o
}

var reListing = regexp.MustCompile(`^(\d{4,}) +(\||\d+:\d+) +([A-Z]+)(.*)$`)

// lineCol maps an offset to line:column with the decoder's own line table.
func lineCol(lfs []uint64, pos uint64) string {
	j := sort.Search(len(lfs), func(i int) bool { return lfs[i] >= pos })
	if j == 0 {
		return fmt.Sprintf("1:%d", pos+1)
	}
	return fmt.Sprintf("%d:%d", j+1, pos-lfs[j-1])
}

func c14Fresh(sc *Scenario) *Outcome {
	o := &Outcome{}
	mem := ParseMem(sc.Src, sc.Name, OptDisasm)
	if mem.Panic != "" || mem.Err != nil {
		o.Skipped = true
		return o
	}
	dump, derr, dpanic := DumpProg(mem.Prog)
	if derr != "" || dpanic != "" {
		o.Skipped = true
		return o
	}
	o.Hash = hash64(string(dump))
	o.Nontrivial = true
	bad := func(sig, detail string) *Outcome {
		o.viol("C14", "layout", sig, detail, sc)
		return o
	}
	f, err := bcfmt.Decode(dump)
	if err != nil {
		return bad("independent decoder cannot parse a fresh dump", err.Error())
	}
	if f.Major != 1 || f.Minor != 1 {
		return bad("fresh dump does not declare version 1.1", fmt.Sprintf("declares %d.%d", f.Major, f.Minor))
	}
	if f.Name != sc.Name {
		return bad("stored program name differs", fmt.Sprintf("%q vs %q", short(f.Name, 80), short(sc.Name, 80)))
	}
	if re := f.Encode(); !bytes.Equal(re, dump) {
		return bad("re-encoding what the decoder read gives different bytes", firstDiff(re, dump))
	}
	ins, err := bcfmt.Instructions(f.Code)
	if err != nil {
		return bad("code section does not tile into v1.1 instructions", err.Error())
	}
	if len(ins) == 0 || ins[len(ins)-1].Op != bcfmt.OpRET {
		return bad("code does not end in RET", "")
	}
	if len(f.Positions) != len(f.Code) {
		return bad("positions section length differs from code length", fmt.Sprintf("%d vs %d", len(f.Positions), len(f.Code)))
	}
	for _, in := range ins {
		for k, a := range bcfmt.OpArgs[in.Op] {
			if a == 'c' && in.Args[k] >= uint64(len(f.Consts)) {
				return bad("constant index out of range", fmt.Sprintf("offset %d: %s %d with %d constants", in.Off, in.Name(), in.Args[k], len(f.Consts)))
			}
		}
		if tg := in.Target(); tg >= 0 {
			ok := false
			for _, x := range ins {
				if x.Off == tg {
					ok = true
				}
			}
			if !ok && tg != len(f.Code) {
				return bad("jump target is not an instruction boundary", fmt.Sprintf("offset %d: %s -> %d", in.Off, in.Name(), tg))
			}
		}
	}
	// the listing, as printed by bcl from its in-memory program
	var rows [][]string
	for _, l := range strings.Split(mem.Out, "\n") {
		if m := reListing.FindStringSubmatch(l); m != nil {
			rows = append(rows, m)
		}
	}
	if len(rows) != len(ins) {
		return bad("listing and decoder disagree on the number of instructions", fmt.Sprintf("listing %d rows, decoder %d instructions", len(rows), len(ins)))
	}
	for i, in := range ins {
		m := rows[i]
		off, _ := strconv.Atoi(m[1])
		if off != in.Off || m[3] != in.Name() {
			return bad("listing and decoder disagree on an instruction", fmt.Sprintf("row %d: listing %s %s, decoder %04d %s", i, m[1], m[3], in.Off, in.Name()))
		}
		if m[2] != "|" {
			if want := lineCol(f.Lfs, f.Positions[in.Off]); want != m[2] {
				return bad("listing position differs from stored positions/line table", fmt.Sprintf("offset %d: listing %s, stored %s", in.Off, m[2], want))
			}
		} else if in.Off > 0 && f.Positions[in.Off] != f.Positions[in.Off-1] {
			return bad("listing position differs from stored positions/line table", fmt.Sprintf("offset %d: listing shows a repeated position, stored %d after %d", in.Off, f.Positions[in.Off], f.Positions[in.Off-1]))
		}
		rest := m[4]
		switch in.Op {
		case bcfmt.OpCONST, bcfmt.OpGETFIELD, bcfmt.OpSETFIELD:
			c := f.Consts[in.Args[0]]
			want := fmt.Sprintf(" %4d '%s'", in.Args[0], constText(c))
			if !strings.Contains(constText(c), "\n") && strings.TrimSpace(rest) != strings.TrimSpace(want) {
				return bad("listing constant differs from the stored constant", fmt.Sprintf("offset %d: listing %q, stored %q", in.Off, short(rest, 120), short(want, 120)))
			}
		case bcfmt.OpJUMP, bcfmt.OpJFALSE, bcfmt.OpLOOP:
			want := fmt.Sprintf(" %4d -> %04d", in.Args[0], in.Target())
			if strings.TrimSpace(rest) != strings.TrimSpace(want) {
				return bad("listing jump differs from the stored big-endian operand", fmt.Sprintf("offset %d: listing %q, stored %q", in.Off, rest, want))
			}
		case bcfmt.OpGETLOCAL, bcfmt.OpSETLOCAL, bcfmt.OpPOPN:
			if strings.TrimSpace(rest) != fmt.Sprint(in.Args[0]) {
				return bad("listing operand differs from the stored varint", fmt.Sprintf("offset %d: listing %q, stored %d", in.Off, rest, in.Args[0]))
			}
		case bcfmt.OpBIND:
			if !strings.HasSuffix(strings.TrimSpace(rest), fmt.Sprintf("0x%2X", in.Args[1])) {
				return bad("listing bind byte differs from the stored byte", fmt.Sprintf("offset %d: listing %q, stored 0x%2X", in.Off, rest, in.Args[1]))
			}
		}
	}
	o.probe("fresh_dumps_decoded", 1)
	o.probe("instructions_compared", len(ins))
	return o
}

// constText renders a decoded constant the way Go prints the value bcl holds.
func constText(c bcfmt.Value) string {
	switch c.Type {
	case bcfmt.TInt:
		return strconv.FormatInt(c.I, 10)
	case bcfmt.TFloat:
		return fmt.Sprint(math.Float64frombits(c.F))
	case bcfmt.TStr:
		return c.S
	case bcfmt.TBool:
		return fmt.Sprint(c.B != 0)
	}
	return "<nil>"
}
