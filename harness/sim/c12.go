package sim

import (
	"bytes"
	"fmt"
	"io"
	"runtime"
	"strconv"
	"strings"
	"sync"
	"sync/atomic"
	"testing"

	"github.com/wkhere/bcl"

	"verifharness/gen"
	"verifharness/prng"
	"verifharness/simio"
)

// C12: concurrent internals and concurrent callers are free of data races.
// The oracle for races is the Go race detector (this property's worker is
// built with -race; the parent scans the worker's stderr for reports with a
// frame in package bcl). The oracle for "do not influence each other" is
// equality of every concurrent call's result with the same call made alone.
type c12 struct{}

func init() { register(c12{}) }

func (c12) ID() string { return "C12" }
func (c12) Rule() string {
	return "race-detector build of the same simulator. Part 1 (pipeline internals): multi-chunk inputs - many syntax errors spread over many small reads, valid inputs, early failures - through the real ParseFile goroutines with only the seams gated (reader-eager / log-stalled / uniform biases, or free-running), so lexer and parser run free inside each quiescence window; " +
		"part 2 (concurrent callers): 2-4 goroutines started from one barrier, not gated against each other, each running a seeded list of Parse / Interpret / ParseFile / Execute and Dump of one shared Prog (lock-free per-goroutine output) / LoadProg / Unmarshal / Bind of a shared binding; every result must equal the result of the same call made alone. " +
		"non-trivial iff >=2 reads were delivered (part 1) or >=2 callers ran >=2 calls each (part 2); distinct = distinct (source hash, script, schedule) or op-list hashes"
}

func (c12) Gen(seed uint64, idx int, tier string) *Scenario {
	r := prng.New(seed, "C12", idx)
	sc := &Scenario{Prop: "C12", Seed: seed, Idx: idx, Name: "f.bcl"}
	if r.Chance(2, 5) {
		sc.Class = "callers"
		sc.SetInt("clients", r.Range(2, 4))
		sc.SetInt("ops", r.Range(2, 7))
		sc.SetInt("oseed", r.Intn(1<<30))
		if r.Chance(1, 6) {
			sc.SetInt("sharedwriter", 1)
		}
		return sc
	}
	class := prng.Pick(r, []string{"many-errors", "many-errors", "many-errors", "valid", "valid-big", "lex-early", "syntax-late"})
	sc.Class = "pipeline:" + class
	if class == "many-errors" {
		sc.Src = gen.ManySyntaxErrors(r, r.Range(20, 400))
	} else {
		sc.Src, _, _ = genInput(r, class, tier)
	}
	sc.API = prng.Pick(r, []string{"ParseFile", "ParseFile", "InterpretFile", "UnmarshalFile"})
	if r.Chance(1, 3) {
		sc.Opts = r.Intn(8)
	}
	mean := prng.Pick(r, []int{1, 3, 7, 20, 64, 300})
	for n := 0; n < len(sc.Src); {
		k := r.Geom(mean, 4096)
		sc.Reads = append(sc.Reads, simio.ReadStep{N: k})
		n += k
	}
	if r.Chance(2, 3) {
		sc.GateRead = true
		sc.GateLog = r.Chance(3, 4)
		sc.GateClose = r.Chance(1, 2)
		sc.Bias = prng.Pick(r, []string{"reader-eager", "reader-eager", "log-last", "uniform", "lifo", "parser-eager"})
	}
	if r.Chance(1, 4) {
		sc.Reads[r.Intn(len(sc.Reads))].Err = true
	}
	// Close fails (a checksum found wrong at the end, a network file system): whatever the call
	// does with that error, the goroutine that closes and the caller must not race on it
	sc.CloseErr = r.Chance(1, 4)
	if r.Chance(1, 3) {
		// the log writer is a plain unsynchronised buffer that the caller reads as soon as the
		// call is back: any goroutine of the call that still writes then is a data race
		sc.RawLog = true
		sc.GateLog = false
	}
	return sc
}

func goid() uint64 {
	var buf [64]byte
	n := runtime.Stack(buf[:], false)
	// "goroutine 123 ["
	f := strings.Fields(string(buf[:n]))
	if len(f) < 2 {
		return 0
	}
	id, _ := strconv.ParseUint(f[1], 10, 64)
	return id
}

// demux is a writer that is safe for concurrent use without any lock: each
// registered goroutine writes to its own buffer. The map is complete before
// the callers are released and only read afterwards.
type demux struct{ bufs map[uint64]*bytes.Buffer }

func (d *demux) Write(p []byte) (int, error) {
	if b := d.bufs[goid()]; b != nil {
		b.Write(p)
	}
	return len(p), nil
}

func (d *demux) mine() *bytes.Buffer { return d.bufs[goid()] }

type callerEnv struct {
	baseOpts   []bcl.Option // one option slice with spare capacity, spread by every caller
	fresh      *bcl.Prog    // a second shared Prog that nobody has executed before the callers start
	freshOut   *demux
	shared     *bcl.Prog
	sharedDump []byte
	out, log   *demux
	binding    bcl.Binding
	srcs       [][]byte
	dumps      [][]byte
	orderSrc   []byte
	orderKind  string
	localBad   atomic.Value
}

// doOp performs one call and returns a digest of everything it produced.
var freshName atomic.Int64

func (e *callerEnv) doOp(op, arg int) string {
	src := e.srcs[arg%len(e.srcs)]
	if arg&16 != 0 {
		// a variable name nobody has used before in this process (local names are not part of
		// any result): whatever the library remembers about identifiers is written now
		src = append([]byte(fmt.Sprintf("var fresh_%010d = 1\n", freshName.Add(1))), src...) // fixed width: offsets stay the same
	}
	if op <= 1 {
		// the bytes belong to the caller: it fills its buffer, calls, and uses the buffer for
		// the next request as soon as the call is back. Nothing of the library may still be
		// reading it then (under the race detector a straggler shows as a race with these writes).
		buf := append(make([]byte, 0, len(src)+64), src...)
		src = buf
		defer func() {
			for i := range buf {
				buf[i] = '#'
			}
		}()
	}
	var res string
	func() {
		defer func() {
			if x := recover(); x != nil {
				res = "panic:" + panicSig(x)
			}
		}()
		switch op {
		case 0:
			if arg&8 != 0 {
				// the caller's own option slice has spare capacity and is shared with the other callers
				p, err := bcl.Parse(src, fmt.Sprintf("name-%d", arg), e.baseOpts...)
				d := []byte{}
				if err == nil {
					d, _, _ = DumpProg(p)
				}
				res = digest("parse-sharedopts", errText(err), string(d))
				return
			}
			m := ParseMem(src, "p.bcl", (arg>>2)&(OptDisasm|OptStats))
			d := []byte{}
			if m.Err == nil && m.Panic == "" {
				d, _, _ = DumpProg(m.Prog)
			}
			res = digest("parse", m.ErrText, m.Log, string(d), m.Panic)
		case 1:
			var out, log bytes.Buffer
			bs, bd, err := bcl.Interpret(src, bcl.OptOutput(&out), bcl.OptLogger(&log))
			res = digest("interpret", out.String(), log.String(), RenderBlocks(bs), RenderBinding(bd), errText(err))
		case 2:
			// the observer options are part of "executing one shared Prog": trace and statistics
			// go to the Prog's own (concurrency-safe) writer and to a private one
			o0, l0 := e.out.mine().Len(), e.log.mine().Len()
			var sout bytes.Buffer
			bs, bd, err := bcl.Execute(e.shared, bcl.OptOutput(&sout), bcl.OptTrace(arg&1 != 0), bcl.OptStats(arg&2 != 0))
			res = digest("exec-shared", e.out.mine().String()[o0:], e.log.mine().String()[l0:], sout.String(), RenderBlocks(bs), RenderBinding(bd), errText(err))
		case 3:
			d, e1, e2 := DumpProg(e.shared)
			res = digest("dump-shared", string(d), e1, e2)
		case 4:
			// different callers load different stored programs at the same time
			d := e.sharedDump
			if len(e.dumps) > 0 && arg&2 != 0 {
				d = e.dumps[(arg>>2)%len(e.dumps)]
			}
			switch arg >> 2 & 7 {
			case 5:
				d = d[:len(d)*(arg&3+1)/5] // a file whose write was interrupted, next to complete ones
			case 6:
				d = append([]byte("#!"), d[2:]...) // not a dump at all
			}
			var lr *loadResult
			if arg&16 != 0 {
				// a slow source: the load takes many small reads and gives way to the other callers
				// at each, so that loads of different files really overlap
				lr = &loadResult{Out: &bytes.Buffer{}, Log: &bytes.Buffer{}}
				func() {
					defer func() {
						if x := recover(); x != nil {
							lr.Panic = panicSig(x)
						}
					}()
					script := make([]simio.ReadStep, 0, 64)
					for n := 0; n < len(d) && len(script) < 4096; n += 1 + arg%7 {
						script = append(script, simio.ReadStep{N: 1 + arg%7})
					}
					lr.Prog, lr.Err = bcl.LoadProg(yieldReader{&simio.SimReader{Data: d, Script: script}}, "l", bcl.OptOutput(lr.Out), bcl.OptLogger(lr.Log))
				}()
			} else {
				lr = loadVia(d, nil, "l", arg&1 != 0)
			}
			if lr.Err != nil || lr.Panic != "" {
				res = digest("load", errText(lr.Err), lr.Panic)
				return
			}
			ex := Exec(lr.Prog, lr.Out, lr.Log, 0)
			res = digest("load-exec", ex.Digest())
		case 5:
			if arg&12 == 12 {
				// two callers bind two distinct struct types that happen to share package and name
				// (declared locally in two functions); what each gets follows from its own type
				// and source alone, whichever was bound first in this process
				// (the key "listen" names the field Listen in one type and, by its tag, Port in the other)
				src, tg, want := []byte("def cfg \"a\" { addr = \"10.0.0.1\"; backup = \"b\"; port = 80; listen = 82 }\nbind cfg -> struct\n"), localCfgA(), "&{Name:a Primary:10.0.0.1 Backup:b Port:80 Spare1:0 Spare2:0 Listen:82}|<nil>"
				if arg&1 != 0 {
					src, tg, want = localCfgSrcB, localCfgB(), "&{Name:b Backup:c Port:81 Primary:10.0.0.2}|<nil>"
				}
				var out, log bytes.Buffer
				got := ""
				func() {
					defer func() {
						if x := recover(); x != nil {
							got = "panic: " + panicSig(x)
						}
					}()
					err := bcl.Unmarshal(src, tg, bcl.OptOutput(&out), bcl.OptLogger(&log))
					got = fmt.Sprintf("%+v|%s", tg, errText(err))
				}()
				if got != want {
					e.localBad.Store(fmt.Sprintf("got %s, the type and source say %s", got, want))
				}
				res = digest("unmarshal-local", got)
				return
			}
			tg := newTarget(e.orderKind)
			var out, log bytes.Buffer
			err := bcl.Unmarshal(e.orderSrc, tg, bcl.OptOutput(&out), bcl.OptLogger(&log))
			res = digest("unmarshal", fmt.Sprintf("%#v", tg), errText(err), log.String())
		case 6:
			f := simio.NewSimFile(nil, simio.FileCfg{Name: "c.bcl", Data: src, Script: []simio.ReadStep{{N: 7}, {N: 300}, {N: 1}}})
			var out, log bytes.Buffer
			p, err := bcl.ParseFile(f, bcl.OptOutput(&out), bcl.OptLogger(&log))
			d := []byte{}
			if err == nil {
				d, _, _ = DumpProg(p)
			}
			res = digest("parsefile", errText(err), log.String(), string(d))
		default:
			tg := &UTarget{}
			err := bcl.Bind(tg, e.binding)
			res = digest("bind-shared", fmt.Sprintf("%#v", tg), errText(err))
		}
	}()
	return res
}

// yieldReader lets the other goroutines run before every read (no synchronisation involved).
type yieldReader struct{ r io.Reader }

func (y yieldReader) Read(p []byte) (int, error) { runtime.Gosched(); return y.r.Read(p) }

const numOps = 8

var coldStartDone bool

// coldStart is the very first use of the library in this worker process: several goroutines
// enter it at once, before anything has been parsed, executed, loaded or bound sequentially -
// the only moment at which lazily initialised package state can be raced on. Their results
// must agree with each other and with the same calls made afterwards.
func coldStart(o *Outcome, sc *Scenario) {
	coldStartDone = true
	srcs := [][]byte{
		[]byte("var a = 1 + 2 * 3\nprint a and \"x\" or not false\ndef t \"n\" { f = a / 2; g = \"s\" + 1 }\nbind t -> struct\n"),
		[]byte("def tgt_ab \"b0\" {\n  a_b = 1\n  ab = 2\n}\nbind tgt_ab -> struct\n"),
		[]byte("print 1 +\nvar = 3\nprint \"ok\" * 2\n"),
	}
	const n = 4
	one := func() string {
		var parts []string
		for _, s := range srcs {
			var out, log bytes.Buffer
			bs, bd, err := bcl.Interpret(s, bcl.OptOutput(&out), bcl.OptLogger(&log), bcl.OptDisasm(true), bcl.OptStats(true))
			parts = append(parts, out.String(), log.String(), RenderBlocks(bs), RenderBinding(bd), errText(err))
			tg := &tgtAB{}
			err = bcl.Unmarshal(s, tg, bcl.OptOutput(&out), bcl.OptLogger(&log))
			parts = append(parts, fmt.Sprintf("%#v", tg), errText(err))
			// a type with several bcl tags, bound for the first time in this process by all callers at once
			tt := &tgtTags{}
			err = bcl.Unmarshal([]byte("def tgt_tags \"t\" { pp = 1; qq = 2; rr = \"r\"; ss = 4; uu = true }\nbind tgt_tags -> struct\n"), tt, bcl.OptOutput(&out), bcl.OptLogger(&log))
			parts = append(parts, fmt.Sprintf("%#v", tt), errText(err))
			if p, err := bcl.Parse(s, "c.bcl", bcl.OptOutput(&out), bcl.OptLogger(&log)); err == nil {
				d, _, _ := DumpProg(p)
				lr := loadVia(d, nil, "c", true)
				parts = append(parts, string(d), lr.Listing, errText(lr.Err))
			}
		}
		return digest(parts...)
	}
	got := make([]string, n)
	barrier := make(chan struct{})
	var wg sync.WaitGroup
	for i := 0; i < n; i++ {
		wg.Add(1)
		go func(i int) {
			defer wg.Done()
			defer func() {
				if x := recover(); x != nil {
					got[i] = "panic:" + panicSig(x)
				}
			}()
			<-barrier
			got[i] = one()
		}(i)
	}
	close(barrier)
	wg.Wait()
	after := one()
	for i := 0; i < n; i++ {
		if got[i] != after {
			o.viol("C12", "interference", "first concurrent use of the library in a process gives a different result than later use",
				fmt.Sprintf("caller %d of %d entering the library at the same time, as the first calls of the process, got a result that differs from the same calls made afterwards (%s)", i, n, short(got[i], 60)), sc)
			break
		}
	}
	o.probe("cold_starts", 1)
	o.Evals += n + 1
}

// lockedWriter is a writer that is safe for concurrent use in the ordinary way (a mutex);
// it keeps every Write call apart.
type lockedWriter struct {
	mu     sync.Mutex
	writes []string
}

func (w *lockedWriter) Write(p []byte) (int, error) {
	w.mu.Lock()
	w.writes = append(w.writes, string(p))
	w.mu.Unlock()
	return len(p), nil
}

// c12SharedWriter: several goroutines execute one Prog whose output writer is one shared,
// properly locked writer. What each print contributes must arrive whole: the lines seen are
// exactly the lines of the solo run, each as many times as there were executions.
func c12SharedWriter(sc *Scenario) *Outcome {
	o := &Outcome{}
	r := prng.New(uint64(sc.Int("oseed", 1)), "sharedwriter")
	cfg := gen.DefaultCfg(r)
	cfg.Safe, cfg.PrintHeavy, cfg.NoNL, cfg.NoBind = true, true, true, true
	cfg.LongTail = true
	cfg.LongSizes = []int{500, 1023, 1024, 1025, 2048, 4097}
	cfg.Stmts = r.Range(4, 14)
	sp := gen.Generate(r, cfg)
	w := &lockedWriter{}
	var log bytes.Buffer
	prog, err := bcl.Parse(sp.Src, "shared.bcl", bcl.OptOutput(w), bcl.OptLogger(&log))
	if err != nil {
		o.Skipped = true
		return o
	}
	if _, _, err := bcl.Execute(prog); err != nil {
		o.Skipped = true
		return o
	}
	solo := strings.Join(w.writes, "")
	want := map[string]int{}
	for _, l := range strings.SplitAfter(solo, "\n") {
		if l != "" {
			want[l]++
		}
	}
	w.writes = nil
	nc, reps := sc.Int("clients", 3), sc.Int("ops", 3)
	barrier := make(chan struct{})
	var wg sync.WaitGroup
	for c := 0; c < nc; c++ {
		wg.Add(1)
		go func() {
			defer wg.Done()
			defer func() { recover() }()
			<-barrier
			for k := 0; k < reps; k++ {
				bcl.Execute(prog)
			}
		}()
	}
	close(barrier)
	wg.Wait()
	Beat()
	got := map[string]int{}
	for _, l := range strings.SplitAfter(strings.Join(w.writes, ""), "\n") {
		if l != "" {
			got[l]++
		}
	}
	o.Evals = nc * reps
	o.Nontrivial = true
	o.Hash = hash64(string(sp.Src)) ^ 0x5AFE
	for l, n := range want {
		if got[l] != n*nc*reps {
			o.viol("C12", "interference", "with a shared, locked output writer the printed lines of concurrent executions are not whole",
				fmt.Sprintf("line %q was printed %d times, expected %d (= %d per execution x %d executions); %d distinct lines seen, %d expected",
					short(l, 60), got[l], n*nc*reps, n, nc*reps, len(got), len(want)), sc)
			break
		}
	}
	o.probe("shared_locked_writer_runs", 1)
	return o
}

func c12Callers(sc *Scenario) *Outcome {
	if sc.Int("sharedwriter", 0) == 1 {
		return c12SharedWriter(sc)
	}
	o := &Outcome{}
	keepErrors(true)
	defer keepErrors(false)
	r := prng.New(uint64(sc.Int("oseed", 1)), "callers")
	nc, nops := sc.Int("clients", 2), sc.Int("ops", 3)
	env := &callerEnv{out: &demux{bufs: map[uint64]*bytes.Buffer{}}, log: &demux{bufs: map[uint64]*bytes.Buffer{}}}
	for i := 0; i < 2; i++ {
		s, _, _ := genInput(r, prng.Pick(r, []string{"valid", "valid", "syntax-late", "many-errors"}), "quick")
		env.srcs = append(env.srcs, s)
	}
	// larger programs too: operands beyond the 1-byte varint range (more than 240 constants,
	// locals, POPN counts), long strings, many blocks - whatever a parser might keep a scratch for
	env.srcs = append(env.srcs,
		gen.LimitProgram(r, prng.Pick(r, []string{"manyconsts", "manyblocks", "hugestring", "hugeident"}), false),
		manyLocals(r, gen.Cfg{}).Src)
	// two programs that fail at run time in the same way at different places
	rk := prng.Pick(r, gen.RuntimePlants)
	for i := 0; i < 2; i++ {
		fc := gen.DefaultCfg(r)
		fc.Safe = true
		fc.Stmts = r.Range(1, 6)
		fp := gen.Generate(r, fc)
		gen.AddPlant(r, fp, rk, fc)
		env.srcs = append(env.srcs, fp.Src)
	}
	// calls that end early in the middle of something (a lexical failure inside nested blocks,
	// inside an expression, far before the end of a large input) next to calls whose outcome
	// depends on starting from a clean slate (a bare expression, an unknown name and a stray
	// token at top level, statistics): what the first kind abandons must not reach the second
	depth := r.Range(1, 5)
	env.srcs = append(env.srcs,
		[]byte(strings.Repeat("def a { ", depth)+"x = 1 + (2 * \"unterminated\n"),
		[]byte(strings.Repeat("def b \"n\" {\n", depth)+"var v = 3\ny = 42q\n"+strings.Repeat("}\n", depth)),
		[]byte("1\n"), []byte("eval a\nprint )\nprint 1\n"), []byte("var q = 1\nprint q + zz\n"),
		append([]byte("print 1\nprint 2 @ 3\n"), bytes.Repeat([]byte("print \"filler filler filler\"\n"), r.Range(2500, 9000))...))
	env.orderKind = prng.Pick(r, []string{"ab", "inner", "mism", "tag", "ab-slice"})
	env.orderSrc = []byte(orderSource(r, env.orderKind))
	// the shared program: accepted, prints, defines blocks, binds
	cfg := gen.DefaultCfg(r)
	cfg.Safe = true
	cfg.PrintHeavy = true
	cfg.Stmts = r.Range(3, 15)
	sp := gen.Generate(r, cfg)
	gen.AddPlant(r, sp, "warn.rebind", cfg)
	var err error
	env.shared, err = bcl.Parse(sp.Src, "shared.bcl", bcl.OptOutput(env.out), bcl.OptLogger(env.log))
	if err != nil {
		o.Skipped = true
		return o
	}
	env.sharedDump, _, _ = DumpProg(env.shared)
	env.baseOpts = make([]bcl.Option, 2, 8)
	env.baseOpts[0], env.baseOpts[1] = bcl.OptLogger(io.Discard), bcl.OptOutput(io.Discard)
	env.freshOut = &demux{bufs: map[uint64]*bytes.Buffer{}}
	env.fresh, _ = bcl.Parse(sp.Src, "fresh.bcl", bcl.OptOutput(env.freshOut), bcl.OptLogger(io.Discard))
	for i := 0; i < 3; i++ {
		c2 := gen.DefaultCfg(r)
		c2.Safe = true
		if m := ParseMem(gen.Generate(r, c2).Src, "d.bcl", 0); m.Err == nil && m.Panic == "" {
			if d, e1, e2 := DumpProg(m.Prog); e1 == "" && e2 == "" {
				env.dumps = append(env.dumps, d)
			}
		}
	}
	me := goid()
	env.out.bufs[me], env.log.bufs[me] = &bytes.Buffer{}, &bytes.Buffer{}
	_, env.binding, _ = bcl.Execute(env.shared)
	// op lists and their solo results
	type call struct{ op, arg int }
	lists := make([][]call, nc)
	solo := make([][]string, nc)
	for c := range lists {
		for k := 0; k < nops; k++ {
			// Parse, Interpret, Execute(shared), Dump(shared), LoadProg, Unmarshal, ParseFile, Bind(shared)
			cl := call{r.Weighted(15, 10, 25, 5, 15, 10, 10, 10), r.Intn(32)}
			lists[c] = append(lists[c], cl)
			solo[c] = append(solo[c], env.doOp(cl.op, cl.arg))
		}
	}
	// concurrent phase: callers register their ids, then leave one barrier together
	ids := make(chan uint64, nc)
	barrier := make(chan struct{})
	got := make([][]string, nc)
	firstExec := make([]string, nc)
	var wg sync.WaitGroup
	for c := 0; c < nc; c++ {
		wg.Add(1)
		go func(c int) {
			defer wg.Done()
			ids <- goid()
			<-barrier
			if env.fresh != nil {
				// the very first executions of this Prog happen at the same time
				bs, bd, err := bcl.Execute(env.fresh)
				firstExec[c] = digest(RenderBlocks(bs), RenderBinding(bd), errText(err), env.freshOut.mine().String())
			}
			for _, cl := range lists[c] {
				got[c] = append(got[c], env.doOp(cl.op, cl.arg))
			}
		}(c)
	}
	for c := 0; c < nc; c++ {
		id := <-ids
		env.out.bufs[id], env.log.bufs[id] = &bytes.Buffer{}, &bytes.Buffer{}
		env.freshOut.bufs[id] = &bytes.Buffer{}
	}
	close(barrier)
	wg.Wait()
	Beat()
	for c := 1; c < nc; c++ {
		if firstExec[c] != firstExec[0] {
			o.viol("C12", "interference", "the first executions of one Prog, made concurrently, give different results",
				fmt.Sprintf("caller %d and caller 0 executed a never-executed shared Prog at the same time and got different results", c), sc)
			break
		}
	}
	h := uint64(1469598103934665603)
	opNames := []string{"Parse", "Interpret", "Execute(shared)", "Dump(shared)", "LoadProg+Execute", "Unmarshal", "ParseFile", "Bind(shared binding)"}
	for c := range lists {
		for k, cl := range lists[c] {
			h = (h ^ uint64(cl.op*7+cl.arg)) * 1099511628211
			o.Evals++
			if k < len(got[c]) && got[c][k] != solo[c][k] {
				o.viol("C12", "interference", "a concurrent call's result differs from the same call made alone:"+opNames[cl.op],
					fmt.Sprintf("caller %d call %d (%s) gave a different result when %d callers ran concurrently", c, k, opNames[cl.op], nc), sc)
			}
		}
	}
	if lb, _ := env.localBad.Load().(string); lb != "" {
		o.viol("C12", "interference", "binding one struct type is influenced by another type of the same name bound elsewhere", lb, sc)
	}
	if ch := changedError(); ch != "" {
		o.viol("C12", "interference", "an error value returned by one call is changed by a later call", ch, sc)
	}
	o.Hash = h
	o.Nontrivial = nc >= 2 && nops >= 2
	o.probe("caller_runs", 1)
	return o
}

func (c12) Run(t *testing.T, sc *Scenario) *Outcome {
	if !coldStartDone {
		pre := &Outcome{}
		coldStart(pre, sc)
		if len(pre.Violations) > 0 {
			return pre
		}
		o := c12Run(t, sc)
		o.Evals += pre.Evals
		o.probe("cold_starts", 1)
		return o
	}
	return c12Run(t, sc)
}

func c12Run(t *testing.T, sc *Scenario) *Outcome {
	if sc.Class == "callers" {
		return c12Callers(sc)
	}
	o := &Outcome{}
	res := RunPipe(t, sc, false, false)
	o.Steps = res.Steps
	o.Hash = res.Hash ^ hash64(string(sc.Src))
	o.Sched = fmt.Sprint(len(res.Choices), res.Hash)
	o.Nontrivial = res.FS.Reads >= 2
	o.fault("short_read", res.FS.ShortReads)
	if res.FS.ErrDelivered {
		o.fault("read_error", 1)
	}
	if res.MaxReadsWhileLogPending >= 2 {
		o.probe("lexer_ran_ahead_while_log_stalled", 1)
	}
	if strings.Count(res.Log, "\n") >= 5 {
		o.probe("many_diagnostics_over_many_reads", 1)
	}
	if !sc.GateRead {
		o.probe("free_running_pipeline", 1)
	}
	// hangs and leaks are C11's findings; here they only must not stop the batch
	return o
}
