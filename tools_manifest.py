#!/usr/bin/env python3
"""Regenerates MANIFEST.json from the table below (kept in one place so that
it stays valid). Usage: python3 tools_manifest.py"""
import json, subprocess

BASE_OFF = "cd /repo && go test -json -vet=off -count=1 -timeout 25m ./..."

NA = {
 "C01": "pure function of the source text (expression semantics): no schedule, clock, I/O or fault in its statement or quantifier; needs a reference evaluator + program generation (property-based/differential testing), a different technique",
 "C02": "pure function of the source text (scoping rules): no environment-owned dimension; needs a reference scope model, not a simulator",
 "C03": "pure function of the source text (result blocks mirror definitions): no schedule/fault/I-O dimension",
 "C04": "pure function of the source text (bind selection): no schedule/fault/I-O dimension",
 "C05": "pure function of (Go struct type, value): its 'configurations' are user-defined Go types, i.e. input content; needs a generator over reflect.StructOf types (property-based testing)",
 "C10": "static structural property of compiler output over all control-flow paths: decided by a bytecode verifier / abstract interpretation, nothing to schedule or inject",
 "C15": "pure function of (binding, target value); no schedule, I/O or fault dimension once Bind's map walk is deterministic (covered by C16)",
 "C17": "pure function of the token sequence (accepted iff derivable): needs an independent recogniser and grammar-based mutation, no environment dimension",
 "C20": "metamorphic relation between two renderings of one program: pure function of the source text; the part that meets I/O (layout cut by a chunk boundary) is inside C07",
}

CLAIMED = {
 # id: (level, technique, text, note, design_ref)
 "C11": ("exploration",
         "deterministic simulation: seeded seam scheduler over a testing/synctest bubble with scripted reader faults",
         "Seeded search over (input class x reader script with zero reads/EOF-with-data/errors/endless input x gate set x schedule bias x API variant x options); the real ParseFile/InterpretFile/UnmarshalFile goroutines run unmodified inside a synctest bubble whose root releases exactly one pending seam call per step. Termination is decided by quiescence (not a timeout), Close-exactly-once and read-after-close by the simulated file's counters, leaks by the bubble's own end-of-bubble check, error preference by identity of the injected error, bounded reading after a lexical failure by counting reads after the failing byte was delivered. Sampling, not proof.",
         "Trusts: Go 1.26.8 testing/synctest quiescence detection; confluence of bcl's goroutine network between seam events (re-checked by ./check selftest); the scheduler decides the order of seam calls, not of individual channel operations inside bcl.",
         "6/C11"),
}

def main():
    checks = []
    for pid in sorted(CLAIMED):
        level, tech, text, note, ref = CLAIMED[pid]
        checks.append({
            "property_id": pid,
            "quick_cmd": f"./check {pid} quick",
            "thorough_cmd": f"./check {pid} thorough",
            "evidence_file": f"/verif/evidence/{pid}.json",
            "replay_cmd_template": "./check replay {path}",
            "engine": "sim",
            "level_claimed": {"category": level, "text": text, "design_ref": "DESIGN.md section " + ref},
            "level_note": note,
            "technique": tech,
        })
    na = [{"property_id": k, "reason": v} for k, v in sorted(NA.items())]
    allp = [json.loads(l)["id"] for l in open("/verif/properties.jsonl")]
    for pid in allp:
        if pid not in CLAIMED and pid not in NA:
            na.append({"property_id": pid, "reason": "claimed by DESIGN.md but its check is not built yet in this commit; listed here so that nothing unbuilt is claimed"})
    na.sort(key=lambda x: x["property_id"])
    m = {
        "version": 1,
        "setup_cmd": "./check setup",
        "hooks": {
            "guard": "verif",
            "enable": "none needed: every seam the simulator owns (FileInput, io.Reader, io.Writer, options, process boundary) is an interface bcl already takes as an argument; the checks build the unmodified package from /repo's working tree (harness go.mod: replace github.com/wkhere/bcl => /repo)",
            "baseline_off_cmd": BASE_OFF,
            "source_commits": [],
            "add_only": True,
        },
        "engines": [{
            "name": "sim",
            "path": "/verif/harness",
            "serves_properties": sorted(CLAIMED),
            "kind_free_text": "deterministic simulation with fault injection: Go 1.26.8 testing/synctest bubble + seeded seam scheduler + scripted simulated file/reader/writer/disk; worker processes supervised by a parent (cmd/verif)",
        }],
        "checks": checks,
        "not_applicable": na,
        "notes": "Exit codes: 0 held / 1 VIOLATION / 2 harness trouble (never a violation). VERIF_SEED, VERIF_WORKERS, VERIF_RUNS, VERIF_BUDGET_S are honoured. Known findings: /verif/known_findings.jsonl. See DESIGN.md.",
    }
    json.dump(m, open("/verif/MANIFEST.json", "w"), indent=1)
    print("MANIFEST.json written:", len(checks), "checks,", len(na), "not applicable")

if __name__ == "__main__":
    main()
