#!/usr/bin/env python3
"""Regenerates MANIFEST.json from the table below (kept in one place so that
it stays valid). Usage: python3 tools_manifest.py"""
import json, subprocess

BASE_OFF = "cd /repo && go test -json -vet=off -count=1 -timeout 25m ./..."

NA = {
 "C01": "pure function of the source text (expression semantics): no schedule, clock, I/O or fault in its statement or quantifier; needs a reference evaluator + program generation (property-based/differential testing), a different technique",
 "C02": "pure function of the source text (scoping rules): no environment-owned dimension; needs a reference scope model, not a simulator",
 "C03": "pure function of the source text (result blocks mirror definitions): no schedule/fault/I-O dimension",
 "C04": "pure function of the source text (bind selection): no schedule/fault/I-O dimension",
 "C05": "pure function of (Go struct type, value): its 'configurations' are user-defined Go types, i.e. input content; needs a generator over reflect.StructOf types (property-based testing)",
 "C10": "static structural property of compiler output over all control-flow paths: decided by a bytecode verifier / abstract interpretation, nothing to schedule or inject",
 "C15": "pure function of (binding, target value); no schedule, I/O or fault dimension once Bind's map walk is deterministic (covered by C16)",
 "C17": "pure function of the token sequence (accepted iff derivable): needs an independent recogniser and grammar-based mutation, no environment dimension",
 "C20": "metamorphic relation between two renderings of one program: pure function of the source text; the part that meets I/O (layout cut by a chunk boundary) is inside C07",
}

CLAIMED = {
 # id: (level, technique, text, note, design_ref)
 "C18": ("fault_enumeration",
         "real cmd/bcl process in a simulated environment: seeded argv spellings and file modes compared with the in-process library outcome; syscall faults injected with strace at enumerated points",
         "cmd/bcl has no seam inside the process, so it runs as the real binary; the simulator owns its environment. For each (program class, flag set, file mode) three seeded argv spellings (order, position around the file, clustering, long/short, '--', file by name / '-' / stdin) must give stdout, stderr and exit status equal to what the library produces in-process for the same bytes and options, and identical to each other; --bdump runs are followed by --bload of the written file (by =F, by FILE, on stdin); usage errors must exit 2. Fault enumeration with strace -e inject: open / n-th read of the source, create / k-th write / close of the dump, open / n-th read of the .bcb fail with EACCES/EIO/ENOSPC; conditioned on strace's log showing the injection, exit status 1 with a message, and no incompletely written .bcb may load.",
         "The goroutine schedule inside the bcl process is not controlled (GOMAXPROCS=1 makes strace's per-thread ordinals stable); no oracle depends on it. A failing write to stdout is not judged (the library ignores it too).",
         "6/C18"),

 "C06": ("exploration",
         "deterministic simulation: seeded storage corruption, truncation, literal stressors and limit scaling of stored sources through the real 3-goroutine file pipeline under process supervision",
         "Seeded search over damaged stored sources (byte flip/drop/insert, token delete/duplicate/replace/transpose, truncation), literal stressors at every literal position (leading zeros, bare 0x, 17-21 digit integers, 3-4 digit exponents, every two-byte escape, \\x/\\u/\\U/octal forms, raw non-UTF-8 bytes), programs scaled to just below/at/above each implementation limit (16 block slots, 1024 operand slots with locals and temporaries, expression and parenthesis nesting, 16-bit jump distance, repeat counts), raw bytes and token soup. Each is run in memory under recover and through ParseFile/InterpretFile/UnmarshalFile in a synctest bubble; a panic in a library goroutine kills the worker and is attributed by the parent through the BEGIN/END journal, confirmed and minimised in child processes; hangs are decided by quiescence, CPU loops by a wall-clock supervisor.",
         "Inputs whose legitimate result exceeds 2^20 bytes or nesting beyond 10^4 are excluded as the property states (the generators do not produce them).",
         "6/C06"),
 "C12": ("exploration",
         "deterministic simulation in a -race build: seam-gated pipeline with free-running internals, plus N ungated concurrent callers; oracle = Go race detector + solo-result equality",
         "The same simulator built with the race detector. Part 1: multi-chunk inputs with many syntax errors spread over many small reads (and valid / early-failing inputs) through the real ParseFile goroutines; only the seams are gated, so lexer and parser run free inside each quiescence window and the detector sees the library's true happens-before relation (a scheduler that serialised everything would hide every race). Part 2: 2-4 callers released from one barrier, never gated against each other, each running a seeded list of Parse/Interpret/ParseFile/Execute and Dump of one shared Prog (with a lock-free per-goroutine output writer)/LoadProg/Unmarshal/Bind of a shared binding; each result must equal the same call made alone; the shared Prog is also executed with OptTrace/OptStats. Callers own their input buffers and overwrite them when a call is back; their inputs include abandoned parses (lexical failures inside nested blocks, a >64 KiB input failing in line 2) next to inputs sensitive to a clean start; two same-named local struct types are bound by different callers against an expectation that follows from type and source alone; concurrent loads include interrupted files and non-dumps through slow yielding readers; Close may fail. The first use of the library in every worker process is concurrent (cold start), so lazily initialised package state is raced on if it can be. A report counts iff it has a frame in package bcl.",
         "The race detector has no false positives; it can miss a race whose two accesses are never both executed in one run. Replay reproduces the workload exactly and the report with high probability.",
         "6/C12"),

 "C16": ("exploration",
         "deterministic simulation: one input re-run under different seeded gate schedules, call histories, repetitions, and in fresh worker processes at GOMAXPROCS 1/4/16 with digest comparison",
         "The dimensions that must not matter are varied while the input is held fixed: gate schedule of the file pipeline (4 seeded schedules per input), GOMAXPROCS 1/4/16 and fresh processes (new hash seed each; the parent compares per-run outcome digests across the three passes), earlier calls in the same process (history), in-process repetition (32 quick / 256 thorough for inputs that end in Bind), and Execute twice on one Prog with Dump before/between/after; one long-lived set of Option values and writers serving a sequence of calls, some of which fail half-way (warning then runtime error, Dump onto a disk that fills up, Load of a cut file), each call compared with the same call alone. Workload includes targets Bind refuses that hold pointers, and Unmarshal targets built to expose order dependence (keys colliding on one field, twin inner blocks, several faulty fields, a tag and a name that both match). Map iteration order has no seam: it is sampled by repetition and fresh processes, not scheduled - stated in the evidence.",
         "A map-order dependence with a rare minority order can be missed by 32 repetitions (measured minority 1/8 -> miss probability about 1.4 percent per input; many inputs per run).",
         "6/C16"),
 "C19": ("exploration",
         "deterministic simulation with knob enumeration: all 8 settings of OptDisasm/OptTrace/OptStats on every run, in memory and through the simulated file pipeline",
         "Every scenario (accepted, rejected, failing at run time) is executed under all 8 combinations of the three observer options, in memory and through InterpretFile in a synctest bubble under the same seeded schedule. Blocks, binding, error, log must be identical across the 8 and nothing may panic; the program's printed lines must equal the output with the four extra line formats removed; the listing must equal the independent decoder's instruction list (offsets and mnemonics); the trace must have exactly xstats.opsRead instruction lines that follow the decoder's successor relation (next instruction or jump target). Execute is given writers of its own (program output must stay on the Prog's writer); a failing output writer (fault injection on the output seam) must not change the result under any setting; workload includes 236-330 locals, strings up to 4097 bytes and runs of more than 65536 instructions.",
         "Workload prints only values without line breaks so that the extra line formats can be told apart from program output.",
         "6/C19"),

 "C07": ("exploration",
         "deterministic simulation: seeded and per-source exhaustive read partitions of the real ParseFile pipeline vs whole-input Parse",
         "Differential oracle on one build: for every (source, partition into reads, gate schedule) the real ParseFile pipeline, run in a synctest bubble with a scripted reader, must give the same accept/reject, error text, diagnostics, listing/statistics and byte-identical dump as bcl.Parse of the whole source. Partitions: every single cut of sources up to 400 bytes (x4 zero-read placements), 1 byte/read, fixed, geometric, cuts inside tokens / multi-byte runes / two-character operators / escapes / around CR LF, real 4096-byte pages swept over every byte of a chosen token, zero-byte reads, data+EOF. Exhaustive per source for two-chunk partitions, sampled otherwise.",
         "Trusts the in-memory Parse of the same build as reference (a defect common to both is invisible here; C08 has the absolute oracle for positions).",
         "6/C07"),
 "C08": ("exploration",
         "deterministic simulation: planted diagnostics with generator-known offsets, delivered under seeded read partitions and through dump/load",
         "Absolute oracle computed from the source bytes only: every 'line L:C' in every compile diagnostic, runtime error and warning is mapped back to a byte offset with the harness's own newline index and must (a) exist in the source, (b) end the quoted token text, (c) be a token end recorded by the generator, (d) equal the generator-known offset of a planted fault (11 runtime, 1 warning, 9 compile plant kinds), for Parse, for ParseFile under seeded partitions and schedules, and after Dump -> LoadProg -> Execute; the positions and line-table sections of the dump are decoded by the independent decoder and compared with token ends and newline offsets.",
         "Trusts the harness's own token-offset bookkeeping; for compile diagnostics the property does not single out which token offends, so only membership in the offending statement is required.",
         "6/C08"),
 "C09": ("exploration",
         "deterministic simulation: seeded read partitions of the stored dump through a simulated reader (incl. 1 byte/read, zero reads, data+EOF, boundary-targeted cuts)",
         "Self-consistency on one build over programs whose constants, names and offsets straddle the varint size classes and the 4096-byte buffers: Dump succeeds; LoadProg of the bytes under any partition succeeds; dump(load(dump)) is identical; OptDisasm listings are identical; executing both programs gives identical output, warnings, blocks, binding and runtime error (position included). Every single cut is enumerated for dumps up to 512 bytes. Every other load goes through a reader that also has Stat, Len or Size (a regular file with the true, a smaller, a larger or zero size, a pipe, a failing Stat, a queue whose Len is what has arrived): whatever those say, a complete dump must load. Empty, blank-only and comment-only sources and integer constants on the edges of the varint classes are part of the workload.",
         "Round trip on one build cannot see symmetric format changes (C14 does).",
         "6/C09"),
 "C13": ("fault_enumeration",
         "crash-point enumeration: torn write at every byte of the dump on a simulated disk, surviving prefix re-loaded under three deliveries; full magic and version sweeps",
         "For every program of a seeded set, EVERY cut point 0..len-1 of its dump is enumerated (the real Dump writes to a simulated disk that fails at byte k and keeps exactly k bytes), and the prefix is given to the real LoadProg all at once, one byte per read, and under a seeded partition with zero-byte reads and data+EOF; all 65535 wrong magics and all 65534 unsupported (major, minor) pairs are enumerated on valid bodies. Oracle: non-nil error, no panic; one delivery per cut passes OptDisasm; further load variants per cut: into a used Prog, twice into one Prog, readers ending with an error of their own, a caller-owned bufio.Reader, nil writers, every observer option switched on, readers whose Stat/Size/Len describe the file as it was before the write was interrupted; sources with more than 4096 (thorough: 65536) lines give sections larger than any preallocation cap; a CPU loop inside one LoadProg call is caught by the parent's supervisor (journal heartbeat). Exhaustive per program, sampled over programs.",
         "Programs are sampled; dumps up to about 12 KiB.",
         "6/C13"),
 "C14": ("other",
         "stored-history replay (committed v1.1 corpus from the pinned build and a hand assembler) through a simulated reader + independent decoder of fresh dumps",
         "The restart-after-upgrade scenario: 133 committed v1.1 files (73 written by the pinned build's Dump, 60 hand-assembled from the documented layout by an independent encoder; every opcode incl. NOP/LOOP, every constant kind incl. negative ints, bools, nil, NaN/Inf/-0, all bind nibbles, 1..4-byte varints, 0xFFFF jump, minor 0 and 1) are loaded by the current build under seeded read partitions and must reproduce the recorded output, warnings, blocks, binding, error and re-dump. Every fresh dump is parsed by an independent decoder (own sqlite4 varint, frozen tables), re-encoded identically, tiled into instructions, and compared with the OptDisasm listing offset by offset, mnemonic by mnemonic, constant by constant, jump by jump, position by position.",
         "The recorded expectations are what the pinned build does; the decoder's tables are frozen from the v1.1 documentation in the repository.",
         "6/C14"),

 "C11": ("exploration",
         "deterministic simulation: seeded seam scheduler over a testing/synctest bubble with scripted reader faults",
         "Seeded search over (input class x reader script with zero reads/EOF-with-data/errors/endless input x gate set x schedule bias x API variant x options); the real ParseFile/InterpretFile/UnmarshalFile goroutines run unmodified inside a synctest bubble whose root releases exactly one pending seam call per step. Termination is decided by quiescence (not a timeout), Close-exactly-once and read-after-close by the simulated file's counters, leaks by the bubble's own end-of-bubble check, error preference by identity of the injected error, bounded reading after a lexical failure by counting reads after the failing byte was delivered. Input classes include 600-2100 nested constructs. A history check outside the bubble (first thing in every worker process and every 16th run) makes one to three calls that end badly in seven ways and then requires a valid multi-read input to be parsed, closed once and returned (20 s hang bound). Sampling, not proof.",
         "Trusts: Go 1.26.8 testing/synctest quiescence detection; confluence of bcl's goroutine network between seam events (re-checked by ./check selftest); the scheduler decides the order of seam calls, not of individual channel operations inside bcl.",
         "6/C11"),
}

def main():
    checks = []
    for pid in sorted(CLAIMED):
        level, tech, text, note, ref = CLAIMED[pid]
        checks.append({
            "property_id": pid,
            "quick_cmd": f"./check {pid} quick",
            "thorough_cmd": f"./check {pid} thorough",
            "evidence_file": f"/verif/evidence/{pid}.json",
            "replay_cmd_template": "./check replay {path}",
            "engine": "sim",
            "level_claimed": {"category": level, "text": text, "design_ref": "DESIGN.md section " + ref},
            "level_note": note,
            "technique": tech,
        })
    na = [{"property_id": k, "reason": v} for k, v in sorted(NA.items())]
    allp = [json.loads(l)["id"] for l in open("/verif/properties.jsonl")]
    for pid in allp:
        if pid not in CLAIMED and pid not in NA:
            na.append({"property_id": pid, "reason": "claimed by DESIGN.md but its check is not built yet in this commit; listed here so that nothing unbuilt is claimed"})
    na.sort(key=lambda x: x["property_id"])
    m = {
        "version": 1,
        "setup_cmd": "./check setup",
        "hooks": {
            "guard": "verif",
            "enable": "none needed: every seam the simulator owns (FileInput, io.Reader, io.Writer, options, process boundary) is an interface bcl already takes as an argument; the checks build the unmodified package from /repo's working tree (harness go.mod: replace github.com/wkhere/bcl => /repo)",
            "baseline_off_cmd": BASE_OFF,
            "source_commits": [],
            "add_only": True,
        },
        "engines": [{
            "name": "sim",
            "path": "/verif/harness",
            "serves_properties": sorted(CLAIMED),
            "kind_free_text": "deterministic simulation with fault injection: Go 1.26.8 testing/synctest bubble + seeded seam scheduler + scripted simulated file/reader/writer/disk; worker processes supervised by a parent (cmd/verif)",
        }],
        "checks": checks,
        "not_applicable": na,
        "notes": "Exit codes: 0 held / 1 VIOLATION / 2 harness trouble (never a violation). VERIF_SEED, VERIF_WORKERS, VERIF_RUNS, VERIF_BUDGET_S are honoured. Known findings: /verif/known_findings.jsonl. See DESIGN.md.",
    }
    json.dump(m, open("/verif/MANIFEST.json", "w"), indent=1)
    print("MANIFEST.json written:", len(checks), "checks,", len(na), "not applicable")

if __name__ == "__main__":
    main()
